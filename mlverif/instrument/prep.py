"""M-PREP: a preprocessor that is itself a monitor."""
import numpy as np


class MonitoredPreprocessor:
  """Callable preprocessor X[indices] that logs every consultation and can
  be told to raise a chosen exception."""

  def __init__(self, X, raise_exc=None, raise_after=0, as_list=False):
    self.X = np.asarray(X)
    # (the documentation asks a callable for "a 2D array-like": a list of
    # points is one)
    self.as_list = as_list
    self.calls = []
    self.raise_exc = raise_exc
    self.raise_after = raise_after

  def __call__(self, indices):
    self.calls.append((np.asarray(indices).shape,
                       str(np.asarray(indices).dtype)))
    if self.raise_exc is not None and len(self.calls) > self.raise_after:
      raise self.raise_exc
    if self.as_list:
      return self.X[indices].tolist()
    return self.X[indices]

  @property
  def n_calls(self):
    return len(self.calls)

  def __verif_fingerprint__(self):
    # the call log legitimately grows; the data must not change
    return ('MonitoredPreprocessor', self.X)

  # sklearn.clone deep-copies parameters; keep the log shared semantics simple
  def __deepcopy__(self, memo):
    c = MonitoredPreprocessor(self.X.copy(), self.raise_exc, self.raise_after,
                              self.as_list)
    return c
