"""M-API / M-CLOSURE: wrappers on the public methods of the estimator classes.

Every call of a public method that happens anywhere in the worker process --
directly from a workload or indirectly (fit -> calibrate_threshold ->
decision_function -> pair_score -> pair_distance -> transform) -- produces a
call event and a return event, and online invariants are evaluated at the
return event:

  G.C17.args     the arguments of the call have the same bytes afterwards
  G.C17.params   get_params(deep=False) values have the same bytes afterwards
  G.C17.state    query methods leave vars(estimator) unchanged
  G.C03.fit      (only when the workload declared the input well formed)
                 fit returned self and components_ is a real finite 2-D array
  G.C01.nonneg   pair_distance / closure results are never negative
  G.C01.finite   ... and finite when the inputs cannot overflow

The monitors report to the Judge installed with ``set_judge``.  Nothing is
installed unless METRIC_LEARN_VERIF=1.
"""
import functools
import os

import numpy as np

from .. import GUARD
from ..core import fingerprint, fp_map, fp_diff

METHODS = ['fit', 'transform', 'pair_distance', 'pair_score', 'score_pairs',
           'predict', 'decision_function', 'score', 'calibrate_threshold',
           'set_threshold', 'get_metric', 'get_mahalanobis_matrix']
QUERY = {'transform', 'pair_distance', 'pair_score', 'score_pairs', 'predict',
         'decision_function', 'score', 'get_metric',
         'get_mahalanobis_matrix'}

_state = {'judge': None, 'depth': 0, 'well_formed': False, 'events': None,
          'installed': False, 'enabled': True}


def set_judge(judge, well_formed=False, events=None):
  _state['judge'] = judge
  _state['well_formed'] = well_formed
  _state['events'] = events
  _state['depth'] = 0


def set_well_formed(flag):
  _state['well_formed'] = bool(flag)


class paused:
  """Temporarily switch the online monitors off (used by oracles that call
  the estimator themselves, to avoid unbounded recursion / double counting)."""

  def __enter__(self):
    self.prev = _state['enabled']
    _state['enabled'] = False

  def __exit__(self, *a):
    _state['enabled'] = self.prev


def _fitted_state(est):
  """Hyper-parameters and fitted attributes (scikit-learn convention:
  public names, fitted ones end with an underscore).  Private attributes
  (a lazily filled cache, say) are not "fitted state"."""
  return {k: v for k, v in vars(est).items() if not k.startswith('_')}


def _summ(x):
  if isinstance(x, np.ndarray):
    return ('nd', x.shape, str(x.dtype))
  if isinstance(x, (int, float, str, bool, type(None))):
    return x
  return type(x).__name__


def _check_fit_result(j, self, result, name):
  cname = type(self).__name__
  if result is not self:
    j.violated('G.C03.fit', {'est': cname, 'why': 'fit did not return self',
                             'returned': type(result).__name__})
    return
  L = getattr(self, 'components_', None)
  why = None
  if not isinstance(L, np.ndarray):
    why = 'components_ is %s' % type(L).__name__
  elif L.ndim != 2:
    why = 'components_.ndim = %d' % L.ndim
  elif L.dtype.kind != 'f':
    why = 'components_.dtype = %s' % L.dtype
  elif not np.all(np.isfinite(L)):
    why = 'components_ not finite'
  if why:
    j.violated('G.C03.fit', {'est': cname, 'why': why})
  else:
    j.ok('G.C03.fit')


def _check_distance(j, self, args, result, what):
  r = np.asarray(result)
  cname = type(self).__name__
  if r.dtype.kind == 'c':
    j.violated('G.C01.nonneg', {'est': cname, 'why': 'complex distance',
                                'method': what})
    return
  with np.errstate(invalid='ignore'):
    neg = r < 0
  if np.any(neg):
    j.violated('G.C01.nonneg', {'est': cname, 'method': what,
                                'value': r[neg][:3]})
  else:
    j.ok('G.C01.nonneg')
  # finiteness is judged only when overflow is impossible
  L = getattr(self, 'components_', None)
  try:
    a = np.asarray(args[0], dtype=float) if args else None
  except Exception:
    a = None
  if (isinstance(L, np.ndarray) and a is not None and a.ndim == 3 and
          L.dtype.kind == 'f' and np.all(np.isfinite(L)) and
          np.all(np.isfinite(a)) and a.size and L.size):
    bound = np.abs(a).max() * max(np.abs(L).max(), 1e-300) * L.shape[1]
    if bound < 1e140:
      if np.all(np.isfinite(r)):
        j.ok('G.C01.finite')
      else:
        j.violated('G.C01.finite', {'est': cname, 'method': what,
                                    'bound': bound})


def _wrap(cls, name, orig):
  @functools.wraps(orig)
  def wrapper(self, *args, **kwargs):
    j = _state['judge']
    if j is None or not _state['enabled']:
      return orig(self, *args, **kwargs)
    cname = type(self).__name__
    fa = fingerprint((args, kwargs))
    try:
      fparams = fp_map(self.get_params(deep=False))
    except Exception:
      fparams = None
    fstate = fp_map(_fitted_state(self)) if name in QUERY else None
    _state['depth'] += 1
    depth = _state['depth']
    exc = None
    result = None
    try:
      result = orig(self, *args, **kwargs)
    except BaseException as e:   # noqa -- re-raised below
      exc = e
    finally:
      _state['depth'] -= 1
    ev = _state['events']
    if ev is not None and len(ev) < 20000:
      ev.append((depth, cname, name,
                 type(exc).__name__ if exc is not None else _summ(result)))
    j.count('api.%s' % name)
    try:
      result = _post(j, self, cname, name, args, kwargs, fa, fparams, fstate,
                     exc, result, depth)
    except Exception:
      from ..core import tb
      j.harness_error('api monitor %s.%s: %s' % (cname, name, tb()))
    if exc is not None:
      raise exc
    return result
  wrapper.__verif_wrapped__ = orig
  return wrapper


def _post(j, self, cname, name, args, kwargs, fa, fparams, fstate, exc,
          result, depth):
    # --- online invariants -------------------------------------------------
    fa2 = fingerprint((args, kwargs))
    if fa2 != fa:
      j.violated('G.C17.args', {'est': cname, 'method': name,
                                'why': 'argument bytes changed by the call',
                                'raised': type(exc).__name__ if exc else None})
    else:
      j.ok('G.C17.args')
    if fparams is not None:
      try:
        fparams2 = fp_map(self.get_params(deep=False))
      except Exception:
        fparams2 = None
      if fparams2 is not None:
        diff = fp_diff(fparams, fparams2)
        if diff:
          j.violated('G.C17.params', {'est': cname, 'method': name,
                                      'changed': diff})
        else:
          j.ok('G.C17.params')
    if fstate is not None and exc is None:
      diff = fp_diff(fstate, fp_map(_fitted_state(self)))
      if diff:
        j.violated('G.C17.state', {'est': cname, 'method': name,
                                   'changed': diff})
      else:
        j.ok('G.C17.state')
    if exc is not None:
      return result
    if name == 'fit' and depth == 1:
      if _state['well_formed']:
        _check_fit_result(j, self, result, name)
      else:
        j.count('G.C03.fit.out-of-domain')
    elif name == 'pair_distance':
      _check_distance(j, self, args, result, name)
    elif name == 'get_metric' and callable(result):
      result = _wrap_closure(result, cname)
    return result


def _wrap_closure(fun, cname):
  @functools.wraps(fun)
  def metric_fun(*a, **kw):
    j = _state['judge']
    r = fun(*a, **kw)
    if j is not None and _state['enabled']:
      j.count('closure.calls')
      rr = np.asarray(r)
      if rr.dtype.kind == 'c' or (rr == rr).all() and (rr < 0).any():
        j.violated('G.C01.nonneg', {'est': cname, 'method': 'metric_fun',
                                    'value': rr})
      else:
        j.ok('G.C01.nonneg')
    return r
  metric_fun.__verif_wrapped__ = fun
  return metric_fun


def install():
  """Wrap METHODS on every class defined in the metric_learn package."""
  if _state['installed']:
    return 0
  if os.environ.get(GUARD) != '1':
    raise RuntimeError('%s=1 is required to install monitors' % GUARD)
  import inspect
  import sys
  import metric_learn  # noqa
  n = 0
  seen = set()
  for modname, mod in list(sys.modules.items()):
    if not modname.startswith('metric_learn') or mod is None:
      continue
    for cname, c in list(vars(mod).items()):
      if not inspect.isclass(c) or c in seen:
        continue
      if not getattr(c, '__module__', '').startswith('metric_learn'):
        continue
      seen.add(c)
      for m in METHODS:
        f = c.__dict__.get(m)
        if f is None or not inspect.isfunction(f):
          continue
        if getattr(f, '__isabstractmethod__', False):
          continue
        if hasattr(f, '__verif_wrapped__'):
          continue
        setattr(c, m, _wrap(c, m, f))
        n += 1
  _state['installed'] = True
  return n
