"""M-FRAME: read solver-local variables with sys.monitoring, no source edits.

``capture_locals(code, names, sink, event='return')`` registers a *local*
event on one code object only, so nothing else in the process is slowed down.
At PY_RETURN the callback reads the returning frame's locals.  For a LINE
capture the callback fires at the first line whose source text contains
``line_contains`` and every other line of that code object is DISABLEd.
"""
import linecache
import os
import sys

from .. import GUARD

TOOL = 3
_active = {'on': False, 'return': {}, 'line': {}}
mon = sys.monitoring


def _ensure():
  if os.environ.get(GUARD) != '1':
    raise RuntimeError('%s=1 is required to install monitors' % GUARD)
  if not _active['on']:
    mon.use_tool_id(TOOL, 'mlverif')
    mon.register_callback(TOOL, mon.events.PY_RETURN, _on_return)
    mon.register_callback(TOOL, mon.events.LINE, _on_line)
    _active['on'] = True


def _copy(v):
  try:
    import numpy as np
    if isinstance(v, np.ndarray):
      return v.copy()
  except Exception:
    pass
  return v


def _on_return(code, offset, retval):
  ent = _active['return'].get(code)
  if ent is None:
    return mon.DISABLE
  names, sink = ent
  f = sys._getframe(1)
  if f.f_code is not code:
    return
  loc = f.f_locals
  sink({k: _copy(loc[k]) for k in names if k in loc},
       missing=[k for k in names if k not in loc])


def _on_line(code, lineno):
  ent = _active['line'].get(code)
  if ent is None:
    return mon.DISABLE
  names, sink, linenos = ent
  if lineno not in linenos:
    return mon.DISABLE
  f = sys._getframe(1)
  if f.f_code is not code:
    return
  loc = f.f_locals
  sink({k: _copy(loc[k]) for k in names if k in loc},
       missing=[k for k in names if k not in loc])


def _refresh(code):
  ev = 0
  if code in _active['return']:
    ev |= mon.events.PY_RETURN
  if code in _active['line']:
    ev |= mon.events.LINE
  mon.set_local_events(TOOL, code, ev)
  mon.restart_events()


def capture_at_return(func, names, sink):
  _ensure()
  code = func.__code__
  _active['return'][code] = (list(names), sink)
  _refresh(code)
  return code


def capture_at_line(func, names, sink, line_contains):
  """Fire at every execution of the line(s) *following* a source line that
  contains `line_contains` (i.e. once that statement has executed)."""
  _ensure()
  code = func.__code__
  fn = code.co_filename
  linecache.checkcache(fn)
  lines = linecache.getlines(fn)
  first = code.co_firstlineno
  code_lines = sorted({ln for (_, _, ln) in code.co_lines() if ln})
  targets = set()
  for ln in code_lines:
    txt = lines[ln - 1] if ln - 1 < len(lines) else ''
    if line_contains in txt:
      # next executable line after ln
      later = [x for x in code_lines if x > ln]
      # skip continuation lines of the same statement: take the first line
      # that starts a new statement (co_lines only lists statement starts
      # for LINE purposes reasonably well)
      if later:
        targets.add(later[0])
  if not targets:
    return None
  _active['line'][code] = (list(names), sink, targets)
  _refresh(code)
  return code


def release(code):
  if code is None:
    return
  _active['return'].pop(code, None)
  _active['line'].pop(code, None)
  _refresh(code)
