"""In-situ contracts on the real `_util` functions (C20), active in every
worker: every fit of every check evaluates them (thousands of evaluations on
matrices and datasets that no generator of ours chose)."""
import inspect

from . import api, names
from ..oracles import psd

_installed = {'on': False}


def _bind(orig, args, kwargs):
  try:
    ba = inspect.signature(orig).bind(*args, **kwargs)
    ba.apply_defaults()
    return ba.arguments
  except TypeError:
    return None


def install():
  if _installed['on']:
    return
  from metric_learn import _util

  def cfm_factory(orig):
    def on_call(args, kwargs, result, exc):
      j = api._state['judge']
      if j is None or not api._state['enabled']:
        return
      a = _bind(orig, args, kwargs)
      if a is None:
        return
      with api.paused():
        psd.judge_components_from_metric(j, a['metric'], a['tol'], result,
                                         exc, mon='G.C20.cfm')
    return names.observe_function(orig, on_call)

  def minit_factory(orig):
    def on_call(args, kwargs, result, exc):
      j = api._state['judge']
      if j is None or not api._state['enabled']:
        return
      a = _bind(orig, args, kwargs)
      if a is None:
        return
      with api.paused():
        psd.judge_metric_init(j, a['input'], a['init'], a['random_state'],
                              a['return_inverse'], a['strict_pd'], result,
                              exc, mon='G.C20.minit')
    return names.observe_function(orig, on_call)

  def cinit_factory(orig):
    def on_call(args, kwargs, result, exc):
      j = api._state['judge']
      if j is None or not api._state['enabled']:
        return
      a = _bind(orig, args, kwargs)
      if a is None:
        return
      with api.paused():
        psd.judge_components_init(j, a['n_components'], a['input'], a['y'],
                                  a['init'], a['random_state'],
                                  a['has_classes'], result, exc,
                                  mon='G.C20.cinit')
    return names.observe_function(orig, on_call)

  for fname, fac in (('components_from_metric', cfm_factory),
                     ('_initialize_metric_mahalanobis', minit_factory),
                     ('_initialize_components', cinit_factory)):
    orig = getattr(_util, fname)
    if hasattr(orig, '__verif_wrapped__'):
      continue
    names.patch_everywhere(orig, fac(orig))
  _installed['on'] = True


def install_all():
  """Everything that is always on in a worker."""
  import metric_learn  # noqa: make sure all submodules are imported
  n = api.install()
  install()
  return n
