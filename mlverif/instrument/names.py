"""M-NAME: observe internal steps by rebinding module-level names and methods.

``patch_everywhere(orig, wrapper)`` replaces every reference to ``orig`` held
in the globals of an already imported ``metric_learn.*`` module (functions are
imported with ``from ._util import f``, so patching ``_util.f`` alone would be
bypassed).  ``wrap_method`` replaces a method on its defining class.  Both are
undoable and count their evaluations: zero evaluations of a deciding monitor
is *inconclusive*, never *held*.
"""
import functools
import os
import sys

from .. import GUARD

_undo = []


def _guard():
  if os.environ.get(GUARD) != '1':
    raise RuntimeError('%s=1 is required to install monitors' % GUARD)


def patch_everywhere(orig, wrapper, prefix='metric_learn'):
  """Rebind every module-global that *is* orig to wrapper.  Returns count."""
  _guard()
  n = 0
  for modname, mod in list(sys.modules.items()):
    if mod is None or not modname.startswith(prefix):
      continue
    for k, v in list(vars(mod).items()):
      if v is orig:
        setattr(mod, k, wrapper)
        _undo.append((mod, k, orig))
        n += 1
  return n


def patch_name(module, name, wrapper_factory):
  """Rebind module.name (a name that is looked up in that module's globals,
  e.g. ``minimize`` inside metric_learn.nca) to wrapper_factory(orig)."""
  _guard()
  orig = getattr(module, name)
  w = wrapper_factory(orig)
  setattr(module, name, w)
  _undo.append((module, name, orig))
  return w


def wrap_method(cls, name, wrapper_factory):
  _guard()
  orig = cls.__dict__[name]
  raw = orig.__func__ if isinstance(orig, (staticmethod, classmethod)) else orig
  w = wrapper_factory(raw)
  functools.update_wrapper(w, raw)
  if isinstance(orig, staticmethod):
    w = staticmethod(w)
  elif isinstance(orig, classmethod):
    w = classmethod(w)
  setattr(cls, name, w)
  _undo.append((cls, name, orig))
  return w


def observe_function(orig, on_call):
  """Wrapper that calls on_call(args, kwargs, result, exc) after orig."""
  @functools.wraps(orig)
  def wrapper(*args, **kwargs):
    try:
      r = orig(*args, **kwargs)
    except BaseException as e:  # noqa
      _safe(on_call, args, kwargs, None, e)
      raise
    _safe(on_call, args, kwargs, r, None)
    return r
  wrapper.__verif_wrapped__ = orig
  return wrapper


def _safe(on_call, args, kwargs, r, e):
  try:
    on_call(args, kwargs, r, e)
  except Exception:
    from . import api
    from ..core import tb
    j = api._state['judge']
    if j is not None:
      j.harness_error('name monitor: ' + tb())


def undo_all():
  while _undo:
    obj, k, orig = _undo.pop()
    setattr(obj, k, orig)
