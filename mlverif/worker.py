"""Worker process: runs the cases of one shard with the monitors installed."""
import json
import os
import signal
import sys
import time

from . import GUARD


class CaseTimeout(Exception):
  pass


def _alarm(signum, frame):
  raise CaseTimeout()


def _raised_inside_library(exc, repo_root):
  """'file:line' of the innermost metric_learn frame if the exception came
  out of the library without passing through harness code again (the
  instrumentation wrappers are transparent), else None."""
  import os
  import traceback
  frames = traceback.extract_tb(exc.__traceback__)
  lib = os.path.join(repo_root, 'metric_learn') + os.sep
  here = os.path.dirname(os.path.abspath(__file__)) + os.sep
  last_harness = -1
  last_lib = -1
  for i, fr in enumerate(frames):
    fn = os.path.abspath(fr.filename)
    if fn.startswith(lib):
      last_lib = i
    elif fn.startswith(here) and not fn.startswith(
            os.path.join(here, 'instrument') + os.sep):
      last_harness = i
  if last_lib > last_harness >= 0:
    fr = frames[last_lib]
    return '%s:%d' % (os.path.relpath(fr.filename, repo_root), fr.lineno)
  return None


def main(argv):
  pid, inp, out = argv
  if os.environ.get(GUARD) != '1':
    sys.stderr.write('mlverif.worker: %s is not set; monitors refuse to '
                     'install\n' % GUARD)
    return 2
  from . import repo
  repo.setup()
  from .core import Judge, dumps, tb
  import importlib
  check = importlib.import_module('mlverif.checks.%s' % pid.lower())
  with open(inp) as f:
    shard = json.load(f)
  tier = shard['tier']
  if hasattr(check, 'setup_worker'):
    check.setup_worker(tier)
  case_timeout = getattr(check, 'CASE_TIMEOUT', {}).get(tier, 600)
  signal.signal(signal.SIGALRM, _alarm)
  with open(out, 'w') as fo:
    for index, spec in shard['cases']:
      t0 = time.time()
      judge = Judge()
      rec = {'index': index}
      try:
        signal.alarm(case_timeout)
        check.run_case(spec, judge)
        signal.alarm(0)
      except CaseTimeout:
        judge.skip('harness', 'case-watchdog')
      except Exception as exc:
        signal.alarm(0)
        where = _raised_inside_library(exc, repo.REPO)
        if where:
          # the library raised on a call the check makes unguarded, i.e. one
          # it expects to return on the unchanged tree: the method did not
          # answer.  That is an observation about the code under test, not a
          # harness failure (which would leave the run inconclusive).
          judge.violated('%s.library-call-returns' % pid.upper(),
                         {'raised': repr(exc)[:300], 'where': where,
                          'traceback': tb()[-1200:]},
                         mechanism='library-raised-' + type(exc).__name__)
        else:
          rec['error'] = tb()
      finally:
        signal.alarm(0)
      rec['judge'] = judge.to_dict()
      rec['wall'] = round(time.time() - t0, 3)
      fo.write(dumps(rec) + '\n')
      fo.flush()
  return 0


if __name__ == '__main__':
  sys.exit(main(sys.argv[1:]))
