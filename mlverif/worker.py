"""Worker process: runs the cases of one shard with the monitors installed."""
import json
import os
import signal
import sys
import time

from . import GUARD


class CaseTimeout(Exception):
  pass


def _alarm(signum, frame):
  raise CaseTimeout()


def main(argv):
  pid, inp, out = argv
  if os.environ.get(GUARD) != '1':
    sys.stderr.write('mlverif.worker: %s is not set; monitors refuse to '
                     'install\n' % GUARD)
    return 2
  from . import repo
  repo.setup()
  from .core import Judge, dumps, tb
  import importlib
  check = importlib.import_module('mlverif.checks.%s' % pid.lower())
  with open(inp) as f:
    shard = json.load(f)
  tier = shard['tier']
  if hasattr(check, 'setup_worker'):
    check.setup_worker(tier)
  case_timeout = getattr(check, 'CASE_TIMEOUT', {}).get(tier, 600)
  signal.signal(signal.SIGALRM, _alarm)
  with open(out, 'w') as fo:
    for index, spec in shard['cases']:
      t0 = time.time()
      judge = Judge()
      rec = {'index': index}
      try:
        signal.alarm(case_timeout)
        check.run_case(spec, judge)
        signal.alarm(0)
      except CaseTimeout:
        judge.skip('harness', 'case-watchdog')
      except Exception:
        signal.alarm(0)
        rec['error'] = tb()
      finally:
        signal.alarm(0)
      rec['judge'] = judge.to_dict()
      rec['wall'] = round(time.time() - t0, 3)
      fo.write(dumps(rec) + '\n')
      fo.flush()
  return 0


if __name__ == '__main__':
  sys.exit(main(sys.argv[1:]))
