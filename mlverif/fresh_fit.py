"""Fit an unfitted estimator on given arguments in a pristine interpreter.

Used by C17 as the second reference model: a twin fitted in the worker
process shares every piece of state that lives outside the estimator object
(module-level caches, class attributes, mutable default arguments, memoised
helpers) with the object under test; a twin fitted here shares nothing.

  python -B -m mlverif.fresh_fit <in.pkl> <out.pkl>
"""
import pickle
import sys


def main(argv):
  inp, out = argv
  from . import repo
  repo.setup()
  import numpy as np
  from .core import Quiet
  with open(inp, 'rb') as f:
    job = pickle.load(f)
  est = job['est']
  np.random.seed(job['np_seed'])
  res = {}
  try:
    with Quiet():
      est.fit(*job['args'], **job['kwargs'])
      for op, arg in job['since_fit']:
        if op == 'set_threshold':
          est.set_threshold(arg)
        else:
          est.calibrate_threshold(*arg[0], **arg[1])
    res['est'] = est
  except Exception as e:   # reported to the caller, which decides
    res['error'] = repr(e)[:500]
  with open(out, 'wb') as f:
    pickle.dump(res, f)
  return 0


if __name__ == '__main__':
  sys.exit(main(sys.argv[1:]))
