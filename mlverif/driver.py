"""Driver: shard cases over worker subprocesses, aggregate, classify, report.

Exit codes: 0 = held on everything observed (known findings allowed),
1 = at least one violation that known_findings.json does not list
(``VIOLATION property=<id> replay=<path>`` lines on stdout),
2 = inconclusive (a deciding monitor did not reach its minimum number of
evaluations, a worker died, the harness itself failed) -- never a VIOLATION.
"""
import collections
import importlib
import json
import os
import shutil
import subprocess
import sys
import time

from . import GUARD
from .core import dumps, jsonable, spec_sha

HERE = os.path.dirname(os.path.dirname(os.path.abspath(__file__)))
PY = sys.executable
NCPU = min(16, os.cpu_count() or 1)


def load_check(pid):
  return importlib.import_module('mlverif.checks.%s' % pid.lower())


def load_known():
  p = os.path.join(HERE, 'known_findings.json')
  if not os.path.exists(p):
    return []
  with open(p) as f:
    return json.load(f).get('findings', [])


def worker_env():
  env = dict(os.environ)
  env[GUARD] = '1'
  env['PYTHONHASHSEED'] = '0'
  for v in ('OMP_NUM_THREADS', 'OPENBLAS_NUM_THREADS', 'MKL_NUM_THREADS',
            'NUMEXPR_NUM_THREADS'):
    env[v] = '1'
  env['PYTHONPATH'] = HERE + os.pathsep + env.get('PYTHONPATH', '')
  env['PYTHONDONTWRITEBYTECODE'] = '1'
  env['PYTHONWARNINGS'] = 'ignore'
  return env


def run_workers(pid, specs, tier, timeout, nworkers=None):
  """Run specs in worker subprocesses; returns list of result dicts aligned
  with specs (None where the worker died before reporting)."""
  work = os.path.join(HERE, '.work', '%s-%s-%d' % (pid, tier, os.getpid()))
  shutil.rmtree(work, ignore_errors=True)
  os.makedirs(work)
  n = max(1, min(nworkers or NCPU, len(specs)))
  shards = [[] for _ in range(n)]
  for i, s in enumerate(specs):
    shards[i % n].append((i, s))
  procs = []
  env = worker_env()
  for k, shard in enumerate(shards):
    inp = os.path.join(work, 'in%d.json' % k)
    out = os.path.join(work, 'out%d.jsonl' % k)
    with open(inp, 'w') as f:
      f.write(dumps({'tier': tier, 'cases': shard}))
    log = open(os.path.join(work, 'log%d.txt' % k), 'w')
    p = subprocess.Popen([PY, '-B', '-m', 'mlverif.worker', pid, inp, out],
                         cwd=HERE, env=env, stdout=log, stderr=log)
    procs.append((p, out, log))
  deadline = time.time() + timeout
  dead = []
  for k, (p, out, log) in enumerate(procs):
    try:
      p.wait(timeout=max(1, deadline - time.time()))
    except subprocess.TimeoutExpired:
      p.kill()
      p.wait()
      dead.append('worker %d: wall-clock watchdog (%ds)' % (k, timeout))
    log.close()
    if p.returncode not in (0, None) and p.returncode != -9:
      dead.append('worker %d: exit %s' % (k, p.returncode))
  results = [None] * len(specs)
  for p, out, log in procs:
    if os.path.exists(out):
      with open(out) as f:
        for line in f:
          try:
            r = json.loads(line)
          except ValueError:
            continue
          results[r['index']] = r
  logs = []
  for k in range(n):
    lp = os.path.join(work, 'log%d.txt' % k)
    try:
      with open(lp) as f:
        t = f.read()
      if t.strip():
        logs.append('--- worker %d ---\n%s' % (k, t[-2000:]))
    except OSError:
      pass
  shutil.rmtree(work, ignore_errors=True)
  return results, dead, logs


def own(pid, monitor):
  """Global online monitors are named G.<property>.<what>; in a run of check
  <pid> only those of <pid> decide, the others are reported as
  cross-property observations (their own check has its own workload)."""
  if not monitor.startswith('G.'):
    return True
  return monitor.split('.')[1] == pid


def classify(pid, viol, known):
  for k in known:
    if (k.get('property') == pid and k.get('status') == 'open' and
            k.get('mechanism') == viol.get('mechanism')):
      return k
  return None


def main(pid, tier='quick', seed=0, replay=None, nworkers=None,
         max_cases=None):
  t0 = time.time()
  check = load_check(pid)
  known = load_known()
  evid_path = os.path.join(os.environ.get('VERIF_EVIDENCE_DIR') or
                           os.path.join(HERE, 'evidence'), '%s.json' % pid)
  os.makedirs(os.path.dirname(evid_path), exist_ok=True)

  if replay:
    with open(replay) as f:
      rep = json.load(f)
    specs = [rep['spec']]
    tier = rep.get('tier', tier)
  else:
    specs = check.cases(tier, seed)
    if max_cases:
      specs = specs[:max_cases]
  timeout = getattr(check, 'TIMEOUT', {}).get(tier, 1800 if tier == 'quick'
                                              else 4 * 3600)
  results, dead, logs = run_workers(pid, specs, tier, timeout, nworkers)

  held = collections.Counter()
  inconc = collections.Counter()
  counters = collections.Counter()
  margins = {}
  keys = set()
  samples = []
  unlisted = []
  listed = collections.OrderedDict()
  lost = 0
  errors = []
  cross_held = collections.Counter()
  cross_viol = collections.Counter()
  cross_skip = collections.Counter()
  cross_examples = []
  harness_notes = []
  all_notes = []
  for spec, r in zip(specs, results):
    if r is None:
      lost += 1
      inconc['harness:worker-died-or-timeout'] += 1
      continue
    if r.get('error'):
      errors.append({'spec': spec, 'error': r['error']})
      inconc['harness:error'] += 1
      continue
    j = r['judge']
    for m, c in list(j['held'].items()):
      if not own(pid, m):
        cross_held[m] += c
        del j['held'][m]
    for v in list(j['violations']):
      if not own(pid, v['monitor']):
        cross_viol[v['monitor']] += 1
        if len(cross_examples) < 5:
          cross_examples.append({'spec': spec, 'violation': v})
        j['violations'].remove(v)
    held.update(j['held'])
    for m, c in list(j['inconclusive'].items()):
      if not own(pid, m.split(':')[0]):
        cross_skip[m] += c
        del j['inconclusive'][m]
    inconc.update(j['inconclusive'])
    counters.update(j['counters'])
    for n_ in j['notes']:
      if len(all_notes) < 12:
        all_notes.append(n_)
    if j['counters'].get('harness_errors'):
      harness_notes.extend(n_ for n_ in j['notes'] if 'HARNESS' in n_)
    keys.update(j['keys'])
    for k, v in j['margins'].items():
      v = float(v)
      if v > margins.get(k, -1):
        margins[k] = v
    if j.get('sample') is not None and len(samples) < 6:
      samples.append({'spec': spec, 'observed': j['sample']})
    for v in j['violations']:
      kf = classify(pid, v, known)
      if kf is not None:
        ent = listed.setdefault(kf['mechanism'], {'finding': kf, 'n': 0,
                                                  'example': None})
        ent['n'] += 1
        if ent['example'] is None:
          ent['example'] = {'spec': spec, 'violation': v}
      else:
        unlisted.append((spec, v))

  # replay files for unlisted violations
  rep_dir = os.path.join(os.environ.get('VERIF_REPLAY_DIR') or
                         os.path.join(HERE, 'replays'), pid)
  lines = []
  seen_specs = {}
  for spec, v in unlisted:
    sha = spec_sha(spec)
    path = os.path.join(rep_dir, sha + '.json')
    if sha not in seen_specs:
      os.makedirs(rep_dir, exist_ok=True)
      seen_specs[sha] = {'property': pid, 'tier': tier, 'seed': seed,
                         'spec': spec, 'violations': []}
    seen_specs[sha]['violations'].append(v)
  for sha, body in seen_specs.items():
    path = os.path.join(rep_dir, sha + '.json')
    with open(path, 'w') as f:
      f.write(dumps(body, indent=1))
    rel = os.path.relpath(path, HERE)
    mech = sorted(set(v['mechanism'] for v in body['violations']))
    lines.append('VIOLATION property=%s replay=%s monitors=%s'
                 % (pid, rel, ','.join(mech)))

  required = check.required(tier) if hasattr(check, 'required') else {}
  if replay:
    required = {}
  missing = {m: (held.get(m, 0), n) for m, n in required.items()
             if held.get(m, 0) < n}
  evaluations = int(sum(held.values()) + len(unlisted) +
                    sum(e['n'] for e in listed.values()))
  status = 'held'
  if unlisted:
    status = 'violated'
  elif missing or lost or errors or dead or counters.get('harness_errors'):
    status = 'inconclusive'

  coverage = {
      'evaluations': evaluations,
      'distinct_nontrivial': len(keys),
      'rule': check.RULE,
      'samples': samples[:6],
      'cases': len(specs),
      'monitor_counters': dict(sorted(held.items())),
      'event_counters': dict(sorted(counters.items())),
      'inconclusive': dict(sorted(inconc.items())),
      'worst_margin': {k: (round(v, 6) if v == v and abs(v) != float('inf')
                           else repr(v))
                       for k, v in sorted(margins.items())},
      'known_findings_seen': [
          {'mechanism': m, 'count': e['n'], 'example': e['example']}
          for m, e in listed.items()],
      'cross_property_monitors': {
          'held': dict(sorted(cross_held.items())),
          'violations': dict(sorted(cross_viol.items())),
          'inconclusive': dict(sorted(cross_skip.items())),
          'examples': cross_examples},
      'required_minimum': required,
      'missing_minimum': missing,
      'status': status,
      'workers': max(1, min(nworkers or NCPU, len(specs))),
      'repo_head': __import__('mlverif.repo', fromlist=['x']).head(),
      'notes': all_notes,
      'harness_errors': errors[:5],
      'harness_notes': harness_notes[:5],
      'dead_workers': dead,
  }
  if getattr(check, 'EXHAUSTIVE', {}).get(tier):
    coverage['exhaustive'] = True
    coverage['exhaustive_over'] = check.EXHAUSTIVE[tier]
  evidence = {
      'property_id': pid, 'tier': tier, 'seed': int(seed),
      'level': getattr(check, 'LEVEL', 'exploration'),
      'coverage': coverage,
      'assumptions': getattr(check, 'ASSUMPTIONS', []),
      'wall_s': round(time.time() - t0, 2),
      'violations': len(unlisted),
  }
  if not replay:
    with open(evid_path, 'w') as f:
      f.write(dumps(evidence, indent=1))

  print('[%s] tier=%s seed=%s cases=%d evaluations=%d distinct=%d '
        'inconclusive=%d wall=%.1fs status=%s'
        % (pid, tier, seed, len(specs), evaluations, len(keys),
           sum(inconc.values()), time.time() - t0, status))
  for m, c in sorted(cross_viol.items()):
    print('NOTE: monitor %s of another property fired %d time(s) during this '
          'run (decided by that property\'s own check)' % (m, c))
  for m, e in listed.items():
    print('KNOWN-FINDING: property=%s %s (%d occurrence(s) this run)'
          % (pid, e['finding']['what'], e['n']))
  if unlisted:
    for ln in lines[:40]:
      print(ln)
    if len(lines) > 40:
      print('... %d more violating cases' % (len(lines) - 40))
    for spec, v in unlisted[:5]:
      print('  detail:', dumps({'monitor': v['monitor'],
                                'detail': v['detail']})[:1500])
    return 1
  if status == 'inconclusive':
    print('INCONCLUSIVE property=%s missing=%s lost=%d errors=%d dead=%s'
          % (pid, missing, lost, len(errors), dead))
    for e in errors[:3]:
      print(e['error'][-1500:])
    for n_ in harness_notes[:3]:
      print(n_)
    for lg in logs[:3]:
      print(lg)
    return 2
  return 0
