"""Seeded workload generators: datasets, tuples, query points.

Everything is a pure function of the RandomState handed in, so a case spec
(which only carries integers and option names) reproduces its arrays exactly.
"""
import numpy as np

VARIANTS = ['plain', 'unbalanced', 'offset', 'small_scale', 'large_scale',
            'illcond', 'dyadic', 'int', 'separated', 'coplanar', 'illcond5',
            'coarse', 'factorial']


def random_orthogonal(rng, d):
  q, r = np.linalg.qr(rng.randn(d, d))
  return q * np.sign(np.diag(r))


def well_formed(rng, d=None, n_classes=None, variant='plain', dmax=8,
                min_class=4, nmax=None, labels='range', order='C',
                nmin=None):
  """A well-formed labelled dataset in the sense of the C01/C03 quantifier:
  2<=d<=8 continuous features, n >= 4d, >=2 classes with >=4 members each."""
  d = int(d if d is not None else rng.randint(2, dmax + 1))
  c = int(n_classes if n_classes is not None else rng.randint(2, 5))
  if variant == 'unbalanced':
    sizes = [min_class] + [int(rng.randint(4 * d, 4 * d + 12))
                           for _ in range(c - 1)]
  else:
    per = max(min_class, int(np.ceil(4.0 * d / c)))
    sizes = [int(per + rng.randint(0, 5)) for _ in range(c)]
  while sum(sizes) < 4 * d:
    sizes[-1] += 1
  if nmin is not None and sum(sizes) < nmin:
    add = nmin - sum(sizes)
    for i_ in range(c):
      sizes[i_] += add // c + (1 if i_ < add % c else 0)
  if nmax is not None:
    while sum(sizes) > max(nmax, 4 * d, c * min_class):
      i = int(np.argmax(sizes))
      if sizes[i] <= min_class:
        break
      sizes[i] -= 1
  n = sum(sizes)
  y = np.repeat(np.arange(c), sizes)
  s = np.exp(rng.uniform(np.log(0.5), np.log(2.0), size=d))
  if variant == 'illcond':
    s = np.logspace(0, -3, d)
  if variant == 'illcond5':
    # one direction with a within-class spread 1e5 times smaller than the
    # class separation: whitening magnifies it, and discriminant analyses
    # with a relative rank tolerance keep fewer directions than classes - 1
    s = np.logspace(0, -5, d)
  R = random_orthogonal(rng, d)
  # ('separated': classes far apart, so that margin violations are sparse)
  shifts = rng.randn(c, d) * (6.0 if variant == 'separated' else 1.5)
  if variant == 'coplanar':
    # class means in a common hyperplane (e.g. four classes in three
    # dimensions whose means are coplanar): between-class scatter of rank
    # d - 1 although there are d + 1 classes; the data itself is full rank
    shifts[:, -1] = shifts[0, -1]
  X = (rng.randn(n, d) * s).dot(R) + shifts[y]
  if variant == 'offset':
    X = X + 1e3
  elif variant == 'far_offset':
    # measurements far from the origin (timestamps, absolute positions):
    # unit spread around 1e8, still fifteen significant bits of spread
    X = dyadic(rng, X, q=64.0) + 1e8
  elif variant == 'small_scale':
    X = X * 1e-3
  elif variant == 'large_scale':
    X = X * 1e3
  elif variant == 'dyadic':
    X = dyadic(rng, X)
  elif variant == 'dyadic_fine':
    # same exactness, 128 times finer grid: exact distance ties become rare
    X = dyadic(rng, X, q=1024.0)
  elif variant == 'int':
    X = np.round(X * 8)
    X = _distinct_rows(rng, X, step=1.0)
  elif variant == 'coarse':
    # a coarse integer grid (designed experiments, counts): sample
    # covariances between features are often *exactly* zero
    X = np.round(X)
    X = _distinct_rows(rng, X, step=1.0)
  if variant == 'factorial':
    # a designed experiment: two factors on a full g x g grid (their sample
    # covariance is *exactly* zero), the other features correlated with them
    g = 4 if d <= 3 else 5
    a, b = np.meshgrid(np.arange(g, dtype=float), np.arange(g, dtype=float))
    X = np.zeros((g * g, d))
    X[:, 0], X[:, 1] = a.ravel(), b.ravel()
    for k_ in range(2, d):
      X[:, k_] = X[:, k_ % 2] * (k_ - 1) + rng.randint(-2, 3, size=g * g) + \
          0.5 * (k_ % 2)
    n = g * g
    c = 2
    y = (X[:, 0] + X[:, 1] + rng.randint(0, 2, size=n) > g - 1).astype(int)
  perm = rng.permutation(n)
  X, y = X[perm], y[perm]
  if variant == 'int':
    X = X.astype(np.int64)
  # a real-valued target correlated with one direction (for MLKR)
  w = rng.randn(d)
  t = X.astype(float).dot(w) / (np.abs(X).max() + 1e-300) + \
      0.1 * rng.randn(n)
  if labels == 'sparse':
    # class labels need not be 0..C-1 (nor sorted by first occurrence)
    names = rng.choice(np.arange(1, 60), size=c, replace=False)
    y = names[y]
  if order == 'F':
    X = np.asfortranarray(X)
  return {'X': X, 'y': y, 't': t, 'd': d, 'n': n, 'classes': c,
          'variant': variant}


def _distinct_rows(rng, X, step):
  X = X.copy()
  for _ in range(100):
    _, idx, cnt = np.unique(X, axis=0, return_index=True, return_counts=True)
    if len(idx) == len(X):
      return X
    dup = np.setdiff1d(np.arange(len(X)), idx)
    X[dup] += step * rng.randint(-3, 4, size=(len(dup), X.shape[1]))
  raise RuntimeError('could not make rows distinct')


def dyadic(rng, X, q=8.0):
  """Round to multiples of 1/q (exactly representable; sums/differences of
  such numbers with moderate magnitude are exact), rows kept distinct."""
  return _distinct_rows(rng, np.round(X * q) / q, step=1.0 / q)


# --------------------------------------------------------------------- tuples
def pair_indices(rng, y, n_pos, n_neg):
  """Index pairs (a,b) with labels +1 (same class, a!=b) / -1 (different).
  Points with y<0 are never used."""
  y = np.asarray(y)
  known = np.where(y >= 0)[0]
  pos, neg = [], []
  tries = 0
  while (len(pos) < n_pos or len(neg) < n_neg) and tries < 100000:
    tries += 1
    a, b = rng.choice(known, 2, replace=False)
    if y[a] == y[b]:
      if len(pos) < n_pos:
        pos.append((a, b))
    elif len(neg) < n_neg:
      neg.append((a, b))
  idx = np.array(pos + neg, dtype=np.int64).reshape(-1, 2)
  lab = np.array([1] * len(pos) + [-1] * len(neg), dtype=np.int64)
  perm = rng.permutation(len(idx))
  return idx[perm], lab[perm]


def triplet_indices(rng, y, n):
  y = np.asarray(y)
  known = np.where(y >= 0)[0]
  out = []
  tries = 0
  while len(out) < n and tries < 100000:
    tries += 1
    a, b, c = rng.choice(known, 3, replace=False)
    if y[a] == y[b] and y[a] != y[c]:
      out.append((a, b, c))
  return np.array(out, dtype=np.int64).reshape(-1, 3)


def quadruplet_indices(rng, y, n):
  y = np.asarray(y)
  known = np.where(y >= 0)[0]
  out = []
  tries = 0
  while len(out) < n and tries < 100000:
    tries += 1
    a, b, c, d = rng.choice(known, 4, replace=False)
    if y[a] == y[b] and y[c] != y[d]:
      out.append((a, b, c, d))
  return np.array(out, dtype=np.int64).reshape(-1, 4)


def chunk_labels(rng, y, d, n_chunks=None, unknown_frac=0.2):
  """Chunk assignment for RCA: chunks are subsets of one class, sizes 2..4,
  ids 0..n_chunks-1, -1 for points in no chunk; enough chunks that the
  within-chunk covariance has full rank (sum(|c|-1) >= d + 2)."""
  y = np.asarray(y)
  n = len(y)
  for _ in range(200):
    chunks = -np.ones(n, dtype=np.int64)
    cid = 0
    dof = 0
    for c in rng.permutation(np.unique(y[y >= 0])):
      members = rng.permutation(np.where(y == c)[0])
      keep = members[rng.rand(len(members)) >= unknown_frac]
      i = 0
      while len(keep) - i >= 2:
        size = int(min(len(keep) - i, rng.randint(2, 5)))
        chunks[keep[i:i + size]] = cid
        cid += 1
        dof += size - 1
        i += size
        if n_chunks is not None and cid >= n_chunks and dof >= d + 2:
          break
    if dof >= d + 2:
      # a chunk may have a single member (it adds nothing to the
      # within-chunk covariance, but it is a chunk all the same)
      free = np.where(chunks < 0)[0]
      if len(free) and rng.randint(2):
        for i in rng.permutation(free)[:int(rng.randint(1, 3))]:
          chunks[i] = cid
          cid += 1
      return chunks
    unknown_frac *= 0.5
  raise RuntimeError('could not build full-rank chunks')


# --------------------------------------------------------------- query points
def query_triples(rng, X, n, klass):
  """(n,3,d) query triples of the given class."""
  X = np.asarray(X, dtype=float)
  N, d = X.shape
  lo, hi = X.min(0), X.max(0)
  span = (hi - lo) + 1e-300
  if klass == 'train':
    idx = rng.randint(0, N, size=(n, 3))
    return X[idx]
  if klass == 'gauss':
    return X.mean(0) + rng.randn(n, 3, d) * X.std(0)
  if klass == 'dup':
    # x == y, y == z, x == z patterns and exact duplicates of training rows
    T = X[rng.randint(0, N, size=(n, 3))].copy()
    pat = rng.randint(0, 4, size=n)
    T[pat == 0, 1] = T[pat == 0, 0]
    T[pat == 1, 2] = T[pat == 1, 1]
    T[pat == 2, 2] = T[pat == 2, 0]
    T[pat == 3, 1] = T[pat == 3, 0]
    T[pat == 3, 2] = T[pat == 3, 0]
    return T
  if klass == 'ulp':
    T = X[rng.randint(0, N, size=(n, 3))].copy()
    T[:, 1] = np.nextafter(T[:, 0], np.inf)
    T[:, 2] = np.nextafter(T[:, 0], -np.inf)
    return T
  if klass == 'near':
    # chains of nearly coincident, distinct points (the same measurement
    # re-read with a relative jitter of 1e-13 .. 1e-9): "equal up to a
    # tolerance" is not transitive, the distance has to be
    T = X[rng.randint(0, N, size=(n, 3))].copy()
    T[:, 0] = np.where(T[:, 0] == 0, 1.0, T[:, 0])
    a = 10.0 ** rng.uniform(-13, -9, size=(n, 1)) * rng.uniform(0.6, 0.95,
                                                                 size=(n, 1))
    T[:, 1] = T[:, 0] * (1 + a)
    T[:, 2] = T[:, 0] * (1 + 2 * a)
    return T
  if klass == 'far':
    return X.mean(0) + rng.randn(n, 3, d) * span * 1e6
  if klass == 'magnitude':
    # one magnitude per triple, 1e-100 .. 1e100
    e = rng.uniform(-100, 100, size=(n, 1, 1))
    return rng.randn(n, 3, d) * 10.0 ** e
  if klass == 'mixed_magnitude':
    e = rng.uniform(-100, 100, size=(n, 3, 1))
    return rng.randn(n, 3, d) * 10.0 ** e
  if klass == 'int':
    return np.round(X.mean(0) + rng.randn(n, 3, d) * span).astype(float)
  if klass == 'axis':
    # differences along single coordinate axes
    T = X[rng.randint(0, N, size=(n, 3))].copy()
    for i in range(n):
      k = rng.randint(0, d)
      T[i, 1] = T[i, 0]
      T[i, 1, k] += rng.randn() * span[k]
      T[i, 2] = T[i, 0]
      T[i, 2, k] -= rng.randn() * span[k]
    return T
  if klass == 'ladder':
    # one batch holding collinear triples (0, g u, 2 g u) for every decade of
    # g from 1e-100 to 1e100: whatever a computation does to protect itself
    # against the largest member of a batch must not flush the small ones
    ks = np.arange(-100, 101)
    T = np.zeros((len(ks), 3, d))
    for i, k in enumerate(ks):
      u = rng.randn(d)
      u /= np.linalg.norm(u)
      g = 10.0 ** float(k) * rng.uniform(1.0, 9.0)
      T[i, 1] = g * u
      T[i, 2] = 2 * g * u
    return T[rng.permutation(len(T))]
  raise ValueError(klass)


def nullspace_triples(rng, X, L, n):
  """Triples whose differences lie (almost) in the null space of a
  rank-deficient L: the learned distance should be ~0, and any route that
  evaluates it as a difference of large numbers shows its rounding."""
  X = np.asarray(X, dtype=float)
  N, d = X.shape
  if L.size == 0:
    Z = np.eye(d)
  else:
    u, s, vt = np.linalg.svd(L, full_matrices=True)
    r = int((s > 1e-10 * max(s.max(), 1e-300)).sum()) if s.size else 0
    Z = vt[r:]
  if Z.shape[0] == 0:
    return None
  T = X[rng.randint(0, N, size=(n, 3))].copy()
  for i in range(n):
    c = rng.randn(Z.shape[0]) * 10.0 ** rng.uniform(-3, 3)
    T[i, 1] = T[i, 0] + c.dot(Z)
    c2 = rng.randn(Z.shape[0]) * 10.0 ** rng.uniform(-3, 3)
    T[i, 2] = T[i, 0] + c2.dot(Z) + (rng.randn(d) * 1e-9 if i % 2 else 0)
  return T


QUERY_CLASSES = ['train', 'gauss', 'dup', 'ulp', 'far', 'magnitude',
                 'mixed_magnitude', 'int', 'axis', 'ladder', 'near']


def spd_matrix(rng, d, cond=10.0):
  Q = random_orthogonal(rng, d)
  w = np.exp(rng.uniform(0, np.log(cond), size=d))
  M = (Q * w).dot(Q.T)
  return (M + M.T) / 2
