"""Documented option values per estimator (the C03 configuration product)."""
import itertools

import numpy as np


def _ncomp(d):
  return [None] + list(range(1, d + 1))


def product(name, d, n_classes):
  """Full Cartesian product of documented option values -> list of dicts."""
  out = []
  if name in ('LMNN', 'NCA', 'MLKR'):
    inits = ['auto', 'pca', 'identity', 'random', '@randn']
    for init, k in itertools.product(inits, _ncomp(d)):
      out.append({'init': init, 'n_components': k})
    if name != 'MLKR':
      for k in range(1, min(d, n_classes - 1) + 1):
        out.append({'init': 'lda', 'n_components': k})
  elif name == 'LFDA':
    ks = [None, 1, 2, d - 1, d, d + 2]
    ks = [k for i, k in enumerate(ks) if k is None or
          (k >= 1 and k not in ks[:i])]
    for emb, k, nc in itertools.product(
            ['weighted', 'orthonormalized', 'plain'], ks, _ncomp(d)):
      out.append({'embedding_type': emb, 'k': k, 'n_components': nc})
  elif name in ('RCA', 'RCA_Supervised'):
    for nc in _ncomp(d):
      out.append({'n_components': nc})
  elif name in ('ITML', 'ITML_Supervised', 'LSML', 'LSML_Supervised', 'SDML',
                'SDML_Supervised'):
    for prior in ['identity', 'covariance', 'random', '@spd']:
      out.append({'prior': prior})
  elif name in ('MMC', 'MMC_Supervised'):
    for init in ['identity', 'covariance', 'random', '@spd']:
      out.append({'init': init, 'diagonal': False})
  elif name == 'SCML':
    for nb in [d, 3 * d, None]:
      out.append({'basis': 'triplet_diffs', 'n_basis': nb})
    for nb in [d, 3 * d]:
      out.append({'basis': '@basis', 'n_basis': nb})
  elif name == 'SCML_Supervised':
    for nb in [d, 3 * d, None]:
      out.append({'basis': 'lda', 'n_basis': nb})
      out.append({'basis': 'triplet_diffs', 'n_basis': nb})
    for nb in [d, 3 * d]:
      out.append({'basis': '@basis', 'n_basis': nb})
  else:
    out.append({})
  return out


def pairwise_cover(configs, rng, extra=0):
  """Subset of `configs` covering every (option, value) and every pair of
  option values that occurs in the product (greedy)."""
  if len(configs) <= 3:
    return list(configs)

  def items(c):
    ks = sorted(c)
    single = [(k, repr(c[k])) for k in ks]
    pairs = [(a, b) for a, b in itertools.combinations(single, 2)]
    return set(single) | set(pairs)
  need = set()
  for c in configs:
    need |= items(c)
  order = list(rng.permutation(len(configs)))
  chosen = []
  while need:
    best, gain = None, 0
    for i in order:
      g = len(items(configs[i]) & need)
      if g > gain:
        best, gain = i, g
    if best is None:
      break
    chosen.append(configs[best])
    need -= items(configs[best])
  for i in order[:extra]:
    if configs[i] not in chosen:
      chosen.append(configs[i])
  return chosen


def light(name, d, n_classes):
  """default + a few contrasting variants (for checks where the option
  product is not the point)."""
  kd = max(1, d - 1)
  v = {
      'Covariance': [{}],
      'LFDA': [{}, {'n_components': kd, 'embedding_type': 'orthonormalized'},
               {'embedding_type': 'plain', 'k': 2},
               # (k >= n_features is legal: LFDA warns and clamps it)
               {'embedding_type': 'weighted', 'k': d + 2}],
      'LMNN': [{}, {'n_components': 1, 'init': 'pca'}, {'init': 'random'}],
      'NCA': [{}, {'n_components': kd, 'init': 'identity'},
              {'init': 'random'}],
      'MLKR': [{}, {'n_components': kd, 'init': 'pca'}, {'init': '@randn'}],
      'RCA': [{}, {'n_components': kd}],
      'RCA_Supervised': [{}, {'n_components': 1}],
      'ITML': [{}, {'prior': 'covariance', 'gamma': 10.0},
               {'prior': 'random'}, {'gamma': 'inf'}],
      'ITML_Supervised': [{}, {'prior': '@spd'}],
      'MMC': [{}, {'init': 'covariance'}, {'diagonal': True}],
      'MMC_Supervised': [{}, {'init': 'random'}],
      'SDML': [{}, {'prior': 'covariance', 'sparsity_param': 0.1}],
      'SDML_Supervised': [{}, {'prior': 'random'}],
      'LSML': [{}, {'prior': 'covariance'}],
      'LSML_Supervised': [{}, {'prior': '@spd'}],
      'SCML': [{}, {'basis': '@basis'}],
      'SCML_Supervised': [{}, {'basis': 'triplet_diffs'}],
  }
  return v[name]


def random_hyper(name, d, n_classes, rng):
  """Numeric hyper-parameters drawn inside their documented ranges (on top
  of the fast iteration budgets)."""
  lu = lambda a, b: float(10.0 ** rng.uniform(np.log10(a), np.log10(b)))  # noqa
  p = {}
  if name == 'LMNN':
    p = {'n_neighbors': int(rng.randint(1, 4)),
         'regularization': float(rng.uniform(0.05, 0.95)),
         'learn_rate': lu(1e-8, 1e-2), 'min_iter': int(rng.randint(1, 8)),
         'max_iter': int(rng.randint(1, 25)),
         'convergence_tol': lu(1e-6, 1e-1)}
  elif name in ('NCA', 'MLKR'):
    p = {'max_iter': int(rng.randint(1, 15)),
         'tol': [None, lu(1e-8, 1e-2)][int(rng.randint(2))]}
  elif name in ('ITML', 'ITML_Supervised'):
    p = {'gamma': lu(1e-3, 1e3), 'max_iter': int(rng.randint(1, 80)),
         'tol': lu(1e-8, 1e-1)}
  elif name in ('MMC', 'MMC_Supervised'):
    p = {'max_iter': int(rng.randint(1, 12)), 'tol': lu(1e-8, 1e-1),
         'max_proj': int(rng.choice([500, 2000, 10000]))}
  elif name in ('SDML', 'SDML_Supervised'):
    p = {'sparsity_param': lu(1e-4, 1.0)}
  elif name in ('LSML', 'LSML_Supervised'):
    p = {'tol': lu(1e-6, 1e-1), 'max_iter': int(rng.randint(1, 40))}
  elif name in ('SCML', 'SCML_Supervised'):
    mi = int(rng.randint(10, 200))
    p = {'beta': lu(1e-6, 1.0), 'gamma': lu(1e-4, 10.0), 'max_iter': mi,
         'output_iter': int(rng.randint(1, mi + 1)),
         'batch_size': int(rng.randint(1, 12)),
         'n_basis': int(rng.randint(d, 6 * d))}
    if name == 'SCML_Supervised':
      p.update(k_genuine=int(rng.randint(1, 4)),
               k_impostor=int(rng.randint(1, 8)))
  elif name == 'LFDA':
    p = {'k': [None, int(rng.randint(1, d + 3))][int(rng.randint(2))]}
  if name in ('ITML_Supervised', 'MMC_Supervised', 'SDML_Supervised',
              'LSML_Supervised'):
    p['n_constraints'] = int(rng.randint(5, 120))
  return p
