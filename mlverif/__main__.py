"""python -m mlverif <ID> [--tier quick|thorough] [--seed N] [--replay FILE]"""
import argparse
import os
import sys


def main():
  ap = argparse.ArgumentParser(prog='mlverif')
  ap.add_argument('property_id')
  ap.add_argument('--tier', default=os.environ.get('VERIF_TIER') or 'quick',
                  choices=['quick', 'thorough'])
  ap.add_argument('--seed', type=int, default=None)
  ap.add_argument('--replay', default=None)
  ap.add_argument('--workers', type=int, default=None)
  ap.add_argument('--max-cases', type=int, default=None)
  a = ap.parse_args()
  seed = a.seed
  if seed is None:
    try:
      seed = int(os.environ.get('VERIF_SEED', '0'))
    except ValueError:
      seed = 0
  from . import repo
  repo.setup()
  try:
    from .driver import main as run
    return run(a.property_id.upper(), tier=a.tier, seed=seed, replay=a.replay,
               nworkers=a.workers, max_cases=a.max_cases)
  except Exception:
    # a failure of the machinery itself is never a verdict about the code
    import traceback
    traceback.print_exc()
    print('INCONCLUSIVE property=%s harness failure' % a.property_id.upper())
    return 2


if __name__ == '__main__':
  sys.exit(main())
