"""mlverif -- runtime monitoring of scikit-learn-contrib/metric-learn.

See /verif/DESIGN.md.  Entry point: ``python -m mlverif <ID> --tier quick``.
"""
PROPERTY_IDS = ['C%02d' % i for i in range(1, 21)]
GUARD = 'METRIC_LEARN_VERIF'
