"""Mutation self-test: apply each catalogued property-breaking edit to a
scratch copy of the repository and expect the property's quick check to report
a VIOLATION (exit 1).  `python -m mlverif.selftest [--only ID,...] [--prop C07]
[--baseline]`.  Results -> mutants/RESULTS.json.
"""
import argparse
import json
import os
import shutil
import subprocess
import sys
import tempfile
import time
from concurrent.futures import ThreadPoolExecutor

HERE = os.path.dirname(os.path.dirname(os.path.abspath(__file__)))
REPO = os.environ.get('VERIF_REPO', '/repo')
PY = sys.executable


def apply_edit(root, m):
  path = os.path.join(root, m['file'])
  with open(path, 'rb') as f:
    b = f.read()
  crlf = b'\r\n' in b
  edits = m['edits'] if 'edits' in m else [{'old': m['old'], 'new': m['new']}]
  for e in edits:
    old, new = e['old'], e['new']
    if crlf:
      old = old.replace('\n', '\r\n')
      new = new.replace('\n', '\r\n')
    old, new = old.encode(), new.encode()
    n = b.count(old)
    if n != 1:
      raise RuntimeError('mutant %s: anchor matches %d times in %s'
                         % (m['id'], n, m['file']))
    b = b.replace(old, new)
  with open(path, 'wb') as f:
    f.write(b)


def run_one(m, baseline=False, tier='quick', seed=0):
  t0 = time.time()
  tmp = tempfile.mkdtemp(prefix='mlverif-mut-', dir='/tmp')
  try:
    shutil.copytree(os.path.join(REPO, 'metric_learn'),
                    os.path.join(tmp, 'metric_learn'))
    try:
      apply_edit(tmp, m)
    except RuntimeError as e:
      return dict(m, result='anchor-error', detail=str(e))
    env = dict(os.environ, VERIF_REPO=tmp,
               VERIF_EVIDENCE_DIR=os.path.join(tmp, 'ev'),
               VERIF_REPLAY_DIR=os.path.join(tmp, 'rp'),
               VERIF_SEED=str(seed))
    out = {}
    for pid in m['property'] if isinstance(m['property'], list) \
            else [m['property']]:
      p = subprocess.run([PY, '-m', 'mlverif', pid, '--tier', tier,
                          '--workers', str(m.get('workers', 4))],
                         cwd=HERE, env=env, capture_output=True, text=True,
                         timeout=3600)
      viol = [ln for ln in p.stdout.splitlines()
              if ln.startswith('VIOLATION')]
      mons = sorted(set(x for ln in viol for x in
                        ln.split('monitors=')[-1].split(',')))
      out[pid] = {'exit': p.returncode, 'violations': len(viol),
                  'monitors': mons[:12],
                  'tail': p.stdout.strip().splitlines()[-1:] if
                  p.returncode not in (0, 1) else []}
    caught = any(v['exit'] == 1 and v['violations'] > 0 for v in out.values())
    res = dict(m, result='caught' if caught else 'MISSED', checks=out,
               wall_s=round(time.time() - t0, 1))
    if baseline:
      shutil.copytree(os.path.join(REPO, 'test'), os.path.join(tmp, 'test'))
      for fn in ('pytest.ini', 'setup.cfg'):
        if os.path.exists(os.path.join(REPO, fn)):
          shutil.copy(os.path.join(REPO, fn), tmp)
      p = subprocess.run([PY, '-m', 'pytest', '-q', '-p', 'no:cacheprovider',
                          '-x', '-n', '8', '--timeout=900',
                          '--junitxml=' + os.path.join(tmp, 'j.xml'), 'test'],
                         cwd=tmp, env=dict(os.environ, PYTHONPATH=tmp),
                         capture_output=True, text=True, timeout=3600)
      res['baseline'] = _baseline_ok(os.path.join(tmp, 'j.xml'))
    return res
  finally:
    shutil.rmtree(tmp, ignore_errors=True)


def _baseline_ok(junit):
  import xml.etree.ElementTree as ET
  with open('/root/.vp/BASELINE.json') as f:
    want = set(json.load(f)['stable_pass'])
  try:
    t = ET.parse(junit)
  except Exception as e:
    return {'ok': False, 'error': repr(e)}
  ok = set()
  for tc in t.iter('testcase'):
    if not any(c.tag in ('failure', 'error', 'skipped') for c in tc):
      ok.add(tc.get('classname') + '::' + tc.get('name'))
  miss = sorted(want - ok)
  return {'ok': not miss, 'missing': miss[:5], 'n_missing': len(miss)}


def main():
  ap = argparse.ArgumentParser()
  ap.add_argument('--only', default=None)
  ap.add_argument('--prop', default=None)
  ap.add_argument('--baseline', action='store_true')
  ap.add_argument('--jobs', type=int, default=4)
  ap.add_argument('--tier', default='quick')
  ap.add_argument('--seed', type=int, default=0)
  a = ap.parse_args()
  with open(os.path.join(HERE, 'mutants', 'catalogue.json')) as f:
    cat = json.load(f)['mutants']
  if a.only:
    ids = set(a.only.split(','))
    cat = [m for m in cat if m['id'] in ids]
  if a.prop:
    cat = [m for m in cat if a.prop in (m['property'] if
                                        isinstance(m['property'], list)
                                        else [m['property']])]
  results = []
  with ThreadPoolExecutor(max_workers=a.jobs) as ex:
    for r in ex.map(lambda m: run_one(m, a.baseline, a.tier, a.seed), cat):
      results.append(r)
      print('%-28s %-8s %s' % (r['id'], r['result'],
                               {k: (v['exit'], v['monitors'][:3])
                                for k, v in r.get('checks', {}).items()}
                               if 'checks' in r else r.get('detail')),
            flush=True)
  outp = os.path.join(HERE, 'mutants', 'RESULTS.json')
  prev = {}
  if os.path.exists(outp):
    with open(outp) as f:
      prev = {r['id']: r for r in json.load(f)['results']}
  for r in results:
    r.pop('edits', None)
    r.pop('old', None)
    r.pop('new', None)
    prev[r['id']] = r
  with open(outp, 'w') as f:
    json.dump({'results': sorted(prev.values(), key=lambda r: r['id'])}, f,
              indent=1)
  missed = [r['id'] for r in results if r['result'] != 'caught']
  print('caught %d / %d; not caught: %s' % (len(results) - len(missed),
                                            len(results), missed))
  return 1 if missed else 0


if __name__ == '__main__':
  sys.exit(main())
