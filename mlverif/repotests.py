"""The repository's own test-suite as an additional workload (DESIGN 5.3).

A worker runs one test file of $VERIF_REPO/test with pytest *in-process*, with
the online monitors (M-API fingerprints, distance invariants, C20 contracts)
installed and reporting to the case's Judge.  Only invariants whose
preconditions the monitors establish themselves are judged (finite inputs,
finite components_, spectra outside the skip bands); the degenerate fixtures
the tests use on purpose fall outside those domains and are counted, not
judged.  The outcome of the tests themselves is irrelevant here.
"""
import os

from . import repo
from .core import Quiet
from .instrument import api

FILES = ['metric_learn_test.py', 'test_base_metric.py',
         'test_components_metric_conversion.py', 'test_constraints.py',
         'test_fit_transform.py', 'test_mahalanobis_mixin.py',
         'test_pairs_classifiers.py', 'test_quadruplets_classifiers.py',
         'test_triplets_classifiers.py', 'test_utils.py']


def specs():
  """One case per (test file, slice) -- mahalanobis_mixin and utils are big."""
  out = []
  for f in FILES:
    n = 4 if f in ('test_mahalanobis_mixin.py', 'test_utils.py',
                   'metric_learn_test.py') else 1
    for k in range(n):
      out.append({'kind': 'repotests', 'file': f, 'slice': [k, n]})
  return out


class _Slice:
  """pytest plugin: keep every n-th collected test (deterministic)."""

  def __init__(self, k, n):
    self.k, self.n = k, n

  def pytest_collection_modifyitems(self, config, items):
    keep = [it for i, it in enumerate(items) if i % self.n == self.k]
    items[:] = keep


def run(spec, j):
  import pytest
  path = os.path.join(repo.REPO, 'test', spec['file'])
  if not os.path.exists(path):
    j.skip('repo-tests', 'test-directory-not-available')
    return
  api.set_judge(j)
  k, n = spec['slice']
  with Quiet():
    cwd = os.getcwd()
    try:
      os.chdir(repo.REPO)
      rc = pytest.main(['-q', '-p', 'no:cacheprovider', '--timeout=600',
                        '-x' if False else '--no-header', '-W', 'ignore',
                        '--tb=no', '-o', 'console_output_style=classic', path],
                       plugins=[_Slice(k, n)])
    finally:
      os.chdir(cwd)
  j.count('repo-tests.pytest-exit-%s' % int(rc))
  j.count('repo-tests.files')
  j.distinct('repotests', spec['file'], k)
  if j.sample is None:
    j.sample = {'workload': 'repository test file under monitors',
                'file': spec['file'], 'slice': spec['slice'],
                'api_calls': {c: v for c, v in j.counters.items()
                              if c.startswith('api.')}}
