"""Shared plumbing: seeded RNGs, fingerprints, JSON encoding, the Judge.

The Judge is the three-valued verdict book-keeper of DESIGN §2.1: every oracle
evaluation is recorded as held / violated / inconclusive under the name of the
monitor that made it, so that a run in which a deciding monitor never fired is
reported as inconclusive and never as "held".
"""
import collections
import hashlib
import json
import traceback
import zlib

import numpy as np


# --------------------------------------------------------------------- seeds
def hash32(*parts):
  """Deterministic 32-bit hash of a tuple of ints/strings (not hash())."""
  return zlib.crc32(repr(parts).encode()) & 0xffffffff


def rng_for(*parts):
  return np.random.RandomState(hash32(*parts))


# -------------------------------------------------------------- fingerprints
def _fp_update(h, obj, depth=0):
  if depth > 6:
    h.update(b'<deep>')
    return
  if isinstance(obj, np.ndarray):
    h.update(b'nd')
    h.update(str(obj.dtype).encode())
    h.update(repr(obj.shape).encode())
    if obj.dtype == object:
      for x in obj.ravel().tolist():
        _fp_update(h, x, depth + 1)
    else:
      h.update(np.ascontiguousarray(obj).tobytes())
  elif isinstance(obj, (list, tuple)):
    h.update(b'L' if isinstance(obj, list) else b'T')
    h.update(str(len(obj)).encode())
    for x in obj:
      _fp_update(h, x, depth + 1)
  elif isinstance(obj, dict):
    h.update(b'D')
    for k in sorted(obj, key=repr):
      h.update(repr(k).encode())
      _fp_update(h, obj[k], depth + 1)
  elif isinstance(obj, (int, float, str, bool, bytes, type(None), complex,
                        np.generic)):
    h.update(repr(obj).encode())
    h.update(type(obj).__name__.encode())
  elif hasattr(obj, '__verif_fingerprint__'):
    _fp_update(h, obj.__verif_fingerprint__(), depth + 1)
  elif isinstance(obj, np.random.RandomState):
    h.update(b'RS')  # its internal state legitimately advances when used
  elif hasattr(obj, 'X') and type(obj).__name__ == 'ArrayIndexer':
    h.update(b'AI')
    _fp_update(h, obj.X, depth + 1)
  else:
    # opaque object: identity only
    h.update(('O%s@%d' % (type(obj).__name__, id(obj))).encode())


def fingerprint(obj):
  h = hashlib.sha1()
  _fp_update(h, obj)
  return h.hexdigest()[:16]


def fp_map(d):
  """Per-key fingerprints of a dict (so a diff can name the changed key)."""
  return {k: fingerprint(v) for k, v in d.items()}


def fp_diff(a, b):
  keys = sorted(set(a) | set(b))
  return [k for k in keys if a.get(k) != b.get(k)]


# ---------------------------------------------------------------------- JSON
def jsonable(o, maxel=64):
  """Turn (nested) numpy things into JSON-able things, abbreviating arrays."""
  if isinstance(o, np.ndarray):
    if o.size <= maxel:
      return {'shape': list(o.shape), 'dtype': str(o.dtype),
              'data': jsonable(o.tolist(), maxel)}
    return {'shape': list(o.shape), 'dtype': str(o.dtype),
            'head': jsonable(o.ravel()[:8].tolist(), maxel),
            'sha': fingerprint(o)}
  if isinstance(o, np.generic):
    return jsonable(o.item(), maxel)
  if isinstance(o, float):
    if o != o or o in (float('inf'), float('-inf')):
      return repr(o)
    return o
  if isinstance(o, complex):
    return repr(o)
  if isinstance(o, (int, str, bool, type(None))):
    return o
  if isinstance(o, dict):
    return {str(k): jsonable(v, maxel) for k, v in o.items()}
  if isinstance(o, (list, tuple, set, frozenset)):
    return [jsonable(v, maxel) for v in o]
  return repr(o)[:200]


def dumps(o, **kw):
  return json.dumps(jsonable(o, maxel=10**9), **kw)


def spec_sha(spec):
  return hashlib.sha1(json.dumps(jsonable(spec, 10**9), sort_keys=True)
                      .encode()).hexdigest()[:12]


# --------------------------------------------------------------------- Judge
class Judge:
  """Collects the verdicts of one case."""

  def __init__(self):
    self.held = collections.Counter()
    self.inconclusive = collections.Counter()
    self.violations = []
    self.keys = set()
    self.margins = {}
    self.counters = collections.Counter()
    self.sample = None
    self.notes = []

  # verdicts
  def ok(self, monitor, n=1):
    self.held[monitor] += n

  def violated(self, monitor, detail, mechanism=None):
    if len(self.violations) < 50:
      self.violations.append({'monitor': monitor,
                              'mechanism': mechanism or monitor,
                              'detail': jsonable(detail)})
    else:
      self.counters['violations_dropped'] += 1

  def skip(self, monitor, reason):
    self.inconclusive['%s:%s' % (monitor, reason)] += 1

  def check(self, monitor, cond, detail=None, mechanism=None):
    """cond True -> held, False -> violated."""
    if cond:
      self.held[monitor] += 1
    else:
      self.violated(monitor, detail if detail is not None else {},
                    mechanism)
    return bool(cond)

  def close(self, monitor, a, b, tol, detail=None, mechanism=None,
            scale=None):
    """|a-b| <= tol (elementwise max), recording the margin used."""
    a = np.asarray(a, dtype=float)
    b = np.asarray(b, dtype=float)
    if a.shape != b.shape:
      self.violated(monitor, dict(detail or {}, shape_a=a.shape,
                                  shape_b=b.shape), mechanism)
      return False
    if a.size == 0:
      self.held[monitor] += 1
      return True
    with np.errstate(invalid='ignore'):
      err = np.abs(a - b)
    if not np.all(np.isfinite(err)):
      same = np.array_equal(a, b, equal_nan=False)
      if same:
        self.held[monitor] += 1
        return True
      self.violated(monitor, dict(detail or {}, a=a, b=b, why='non-finite'),
                    mechanism)
      return False
    tol_arr = np.broadcast_to(np.asarray(tol, dtype=float), err.shape)
    with np.errstate(divide='ignore', invalid='ignore'):
      frac = np.where(tol_arr > 0, err / tol_arr,
                      np.where(err == 0, 0.0, np.inf))
    worst = float(frac.max())
    self.margin(monitor, worst)
    if worst <= 1.0:
      self.held[monitor] += 1
      return True
    i = int(np.argmax(frac))
    self.violated(monitor, dict(detail or {}, a=a.ravel()[i], b=b.ravel()[i],
                                err=err.ravel()[i], tol=tol_arr.ravel()[i],
                                index=i), mechanism)
    return False

  def margin(self, name, frac):
    if frac == frac and frac > self.margins.get(name, -1.0):
      self.margins[name] = float(frac)

  def distinct(self, *key):
    self.keys.add(fingerprint(key))

  def count(self, name, n=1):
    self.counters[name] += n

  def note(self, s):
    if len(self.notes) < 20:
      self.notes.append(str(s)[:2000])

  def harness_error(self, msg):
    """A monitor or oracle failed itself: never a verdict about the code."""
    self.counters['harness_errors'] += 1
    self.note('HARNESS ERROR: ' + str(msg)[-1500:])

  def to_dict(self):
    return {'held': dict(self.held), 'inconclusive': dict(self.inconclusive),
            'violations': self.violations, 'keys': sorted(self.keys),
            'margins': self.margins, 'counters': dict(self.counters),
            'sample': jsonable(self.sample), 'notes': self.notes}


def tb():
  return traceback.format_exc()[-3000:]


class Quiet:
  """Context manager: record warnings, silence numpy FP warnings."""

  def __init__(self):
    import warnings
    self._cw = warnings.catch_warnings(record=True)

  def __enter__(self):
    import warnings
    self.w = self._cw.__enter__()
    warnings.simplefilter('always')
    self._err = np.errstate(all='ignore')
    self._err.__enter__()
    return self

  def __exit__(self, *a):
    self._err.__exit__(*a)
    return self._cw.__exit__(*a)

  def of(self, category, contains=None):
    out = []
    for x in self.w:
      if issubclass(x.category, category):
        if contains is None or contains in str(x.message):
          out.append(x)
    return out
