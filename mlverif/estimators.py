"""Registry of the 17 estimators and builders of (estimator, fit arguments).

Case specs carry only names, numbers and tokens; ``build`` turns them into
real objects deterministically.  Tokens for array-valued options:
'@spd' (random SPD matrix), '@randn' (random (k,d) transformation),
'@basis' (random (n_basis,d) basis).
"""
import numpy as np

from .workloads import data as D

ALL = ['Covariance', 'LFDA', 'LMNN', 'NCA', 'MLKR', 'RCA', 'RCA_Supervised',
       'ITML', 'ITML_Supervised', 'MMC', 'MMC_Supervised', 'SDML',
       'SDML_Supervised', 'LSML', 'LSML_Supervised', 'SCML',
       'SCML_Supervised']

KIND = {
    'Covariance': 'unsup', 'LFDA': 'points', 'LMNN': 'points',
    'NCA': 'points', 'MLKR': 'regress', 'RCA': 'chunks',
    'RCA_Supervised': 'points', 'ITML': 'pairs', 'ITML_Supervised': 'points',
    'MMC': 'pairs', 'MMC_Supervised': 'points', 'SDML': 'pairs',
    'SDML_Supervised': 'points', 'LSML': 'quadruplets',
    'LSML_Supervised': 'points', 'SCML': 'triplets',
    'SCML_Supervised': 'points'}
TUPLE_SIZE = {'pairs': 2, 'triplets': 3, 'quadruplets': 4}
PAIRS = ['ITML', 'MMC', 'SDML']
TUPLE_LEARNERS = ['ITML', 'MMC', 'SDML', 'SCML', 'LSML']
SUPERVISED_WEAK = ['ITML_Supervised', 'MMC_Supervised', 'SDML_Supervised',
                   'LSML_Supervised', 'RCA_Supervised', 'SCML_Supervised']
HAS_RANDOM_STATE = [n for n in ALL if n not in ('Covariance', 'LFDA', 'RCA')]


def cls(name):
  import metric_learn
  return getattr(metric_learn, name)


def fast_params(name, d, ds=None):
  """Small iteration budgets (overridable)."""
  p = {}
  if name == 'LMNN':
    p = dict(max_iter=12, n_neighbors=3)
  elif name in ('NCA', 'MLKR'):
    p = dict(max_iter=6)
  elif name in ('ITML', 'ITML_Supervised'):
    p = dict(max_iter=40)
  elif name in ('MMC', 'MMC_Supervised'):
    p = dict(max_iter=6, max_proj=2000)
  elif name in ('LSML', 'LSML_Supervised'):
    p = dict(max_iter=12)
  elif name == 'SCML':
    p = dict(max_iter=120, output_iter=20, n_basis=3 * d, batch_size=5)
  elif name == 'SCML_Supervised':
    p = dict(max_iter=120, output_iter=20, n_basis=3 * d, batch_size=5,
             k_genuine=2, k_impostor=3)
  elif name == 'RCA_Supervised':
    nch = d + 4
    if ds is not None:
      y = np.asarray(ds['y'])
      feas = sum(int((y == c).sum()) // 2 for c in np.unique(y[y >= 0]))
      nch = max(1, min(nch, feas))
    p = dict(n_chunks=nch, chunk_size=2)
  if name in ('ITML_Supervised', 'MMC_Supervised', 'SDML_Supervised',
              'LSML_Supervised'):
    p['n_constraints'] = 40
  return p


def resolve(name, params, d, rng):
  """Replace tokens by arrays."""
  out = dict(params)
  k = out.get('n_components') or d
  def layout(A):
    # array-valued options in C order, Fortran order or as a strided view
    r = rng.randint(3)
    if r == 1:
      return np.asfortranarray(A)
    if r == 2:
      big = np.zeros((A.shape[0], 2 * A.shape[1]), dtype=A.dtype)
      big[:, ::2] = A
      return big[:, ::2]
    return A
  for key, val in list(out.items()):
    if not isinstance(val, str):
      continue
    if val == '@spd':
      if rng.randint(4) == 0:
        # an SPD ndarray may well hold integers (its inverse does not)
        B = rng.randint(-2, 3, size=(d, d))
        out[key] = layout(B.dot(B.T) + np.eye(d, dtype=B.dtype))
      elif rng.randint(6) == 0:
        out[key] = layout(D.spd_matrix(rng, d, cond=20.0).astype(np.float32))
      else:
        out[key] = layout(D.spd_matrix(rng, d, cond=20.0))
    elif val == '@spd-ill':
      # strictly positive definite but badly conditioned (1e8 .. 3e9): every
      # eigenvalue is far above any rounding-level cut-off (d eps max) and
      # above LSML's absolute floor of 1e-8
      Q = D.random_orthogonal(rng, d)
      w = 1e-3 * 10.0 ** np.linspace(0, rng.uniform(8, 9.5), d)
      rng.shuffle(w)
      M_ = (Q * w).dot(Q.T)
      out[key] = layout((M_ + M_.T) / 2)
    elif val == '@aniso':
      # a strongly anisotropic transformation (it reorders neighbours)
      Q = D.random_orthogonal(rng, d)
      sv = 10.0 ** rng.uniform(-3, 0, size=d)
      out[key] = layout((Q * sv).dot(D.random_orthogonal(rng, d))[:k])
    elif val == '@randn':
      if rng.randint(4) == 0:
        # integer-typed array (full row rank is not required of an init)
        out[key] = layout(rng.randint(-3, 4, size=(k, d)))
      else:
        out[key] = layout(rng.randn(k, d))
    elif val == '@basis':
      nb = out.get('n_basis') or 3 * d
      B = rng.randn(nb, d)
      B = B / np.linalg.norm(B, axis=1, keepdims=True)
      if rng.randint(2):
        # a supplied basis need not have unit-norm rows
        B = B * np.exp(rng.uniform(-1.5, 1.5, size=(nb, 1)))
      if rng.randint(4) == 0:
        # ... nor a floating point dtype
        B = rng.randint(-3, 4, size=(nb, d))
        B[np.all(B == 0, axis=1), 0] = 1
      out[key] = layout(B)
      if rng.randint(4) == 0:
        # with an array basis the number of bases is the number of its rows;
        # whatever n_basis says in addition is documented as derived from it
        out['n_basis'] = [None, nb + 2, max(1, nb - 2)][int(rng.randint(3))]
    elif val == 'inf':
      # an infinity that is not the object np.inf (identity tests on
      # np.inf do not survive arithmetic, parsing or pickling)
      out[key] = float('inf') if rng.randint(2) else np.float64('inf')
  return out


class Fit:
  """An estimator with the arguments of its fit call."""

  def __init__(self, name, est, args, kwargs, ds, meta):
    self.name = name
    self.est = est
    self.args = args
    self.kwargs = kwargs
    self.ds = ds
    self.meta = meta
    self.d = ds['d']
    self.X = np.asarray(ds['X'], dtype=float)

  def fit(self):
    return self.est.fit(*self.args, **self.kwargs)


def sdml_bmax(prior_inv, diffs, y):
  """Largest b keeping prior_inv + b * sum_i y_i v_i v_i^T positive definite."""
  L = (diffs.T * y).dot(diffs)
  w, V = np.linalg.eigh(prior_inv)
  isq = (V / np.sqrt(w)).dot(V.T)
  lam = np.linalg.eigvalsh(isq.dot(L).dot(isq))
  if lam.min() >= 0:
    return np.inf
  return -1.0 / lam.min()


def harness_prior(prior, points, d, seed):
  """Independent evaluation of the documented prior options (M0)."""
  from sklearn.datasets import make_spd_matrix
  if isinstance(prior, np.ndarray):
    return np.array(prior, dtype=float)
  if prior == 'identity':
    return np.eye(d)
  if prior == 'covariance':
    Xu = np.unique(points, axis=0)
    C = np.atleast_2d(np.cov(Xu, rowvar=False))
    return np.linalg.pinv(C, hermitian=True)
  if prior == 'random':
    return make_spd_matrix(d, random_state=np.random.RandomState(seed))
  raise ValueError(prior)


def tuples_for(name, ds, rng, n_tuples=None):
  """Index tuples + labels for the weakly supervised learner `name`; one
  time in three a few tuples are listed twice and two tuples share their
  first pair (legal input that unique-ing shortcuts get wrong)."""
  idx, lab = _tuples_for(name, ds, rng, n_tuples)
  if rng.randint(3) == 0 and len(idx) >= 6:
    idx = np.array(idx, copy=True)
    idx[1] = idx[0]
    if lab is not None:
      lab = np.array(lab, copy=True)
      lab[1] = lab[0]
    if idx.shape[1] >= 3:
      idx[3, :2] = idx[2, :2]
  return idx, lab


def _tuples_for(name, ds, rng, n_tuples=None):
  kind = KIND[name]
  y = ds['y']
  d = ds['d']
  if kind == 'pairs':
    n = n_tuples or max(20, 4 * d)
    # similar / dissimilar pairs in varying proportion (>= 3 of each)
    frac = [0.5, 0.25, 0.75, 0.5][int(rng.randint(4))]
    if n >= 6:
      n_pos = int(min(max(3, round(frac * n)), n - 3))
    elif n >= 2:
      # tiny pair sets: at least one pair of each kind
      n_pos = int(min(max(1, round(frac * n)), n - 1))
    else:
      n_pos = int(rng.randint(2))      # a single pair, of either kind
    return D.pair_indices(rng, y, n_pos, n - n_pos)
  if kind == 'triplets':
    n = n_tuples or max(30, 5 * d)
    return D.triplet_indices(rng, y, n), None
  if kind == 'quadruplets':
    n = n_tuples or max(24, 4 * d)
    return D.quadruplet_indices(rng, y, n), None
  raise ValueError(kind)


def build(name, ds, rng, params=None, seed=0, use_fast=True, n_tuples=None,
          sdml_frac=None, preprocessor=None, fit_kwargs=None):
  """-> Fit.  `preprocessor`: None | 'array' | 'list' | callable factory
  taking X; when given, data is passed as indices."""
  X = ds['X']
  d = ds['d']
  Xf = np.asarray(X, dtype=float)
  p = fast_params(name, d, ds) if use_fast else {}
  p.update(params or {})
  p = resolve(name, p, d, rng)
  if name in HAS_RANDOM_STATE and 'random_state' not in p:
    p['random_state'] = int(seed)
  kind = KIND[name]
  meta = {'kind': kind}
  kwargs = dict(fit_kwargs or {})
  prep = None
  if preprocessor is not None:
    if preprocessor == 'array':
      prep = X
    elif preprocessor == 'list':
      prep = X.tolist()
    else:
      prep = preprocessor(X)
    p['preprocessor'] = prep
  points_arg = np.arange(len(X)) if prep is not None else X
  if kind == 'unsup':
    args = (points_arg,)
  elif kind == 'points':
    args = (points_arg, ds['y'])
  elif kind == 'regress':
    args = (points_arg, ds['t'])
  elif kind == 'chunks':
    chunks = D.chunk_labels(rng, ds['y'], d)
    if rng.randint(2):
      # chunk ids are names: any non-negative integers, not only 0..k-1
      k_ = int(chunks.max()) + 1
      names = np.sort(rng.choice(np.arange(3 * k_ + 2), size=k_,
                                 replace=False))
      if rng.randint(2):
        names = rng.permutation(names)
      chunks = np.where(chunks >= 0, names[np.maximum(chunks, 0)], -1)
    meta['chunks'] = chunks
    args = (points_arg, chunks)
  else:
    idx, lab = tuples_for(name, ds, rng, n_tuples)
    meta['tuple_idx'] = idx
    meta['tuple_labels'] = lab
    formed = idx if prep is not None else X[idx]
    args = (formed,) if lab is None else (formed, lab)
  # SDML: keep the graphical-lasso input positive definite (C13 domain)
  if name in ('SDML', 'SDML_Supervised') and 'balance_param' not in (params
                                                                     or {}):
    frac = sdml_frac if sdml_frac is not None else rng.uniform(0.2, 0.6)
    if name == 'SDML':
      idx, lab = meta['tuple_idx'], meta['tuple_labels']
    else:
      from metric_learn.constraints import Constraints
      nc = p.get('n_constraints')
      if nc is None:
        nc = 20 * len(np.unique(ds['y'])) ** 2
      a, b, c, dd = Constraints(ds['y']).positive_negative_pairs(
          nc, random_state=p['random_state'])
      idx = np.vstack([np.column_stack([a, b]), np.column_stack([c, dd])])
      lab = np.hstack([np.ones(len(a)), -np.ones(len(c))])
    diffs = Xf[idx[:, 0]] - Xf[idx[:, 1]]
    M0 = harness_prior(p.get('prior', 'identity'), Xf[idx].reshape(-1, d), d,
                       p['random_state'])
    w0 = np.linalg.eigvalsh((M0 + M0.T) / 2)
    if w0.min() <= 1e-10 * max(w0.max(), 1e-300):
      # (tiny pair sets: the covariance prior is singular; SDML documents
      # that it refuses such a prior - the caller decides what to make of it)
      meta['prior_singular'] = True
      bmax = 1.0
    else:
      bmax = sdml_bmax(np.linalg.inv(M0), diffs, np.asarray(lab, float))
    p['balance_param'] = float(frac * min(0.5, 0.5 * bmax))
    meta['bmax'] = float(bmax)
  est = cls(name)(**p)
  meta['params'] = p
  return Fit(name, est, args, kwargs, ds, meta)
