"""Locate and import the repository under test.

``$VERIF_REPO`` (default /repo) is put first on sys.path and we insist that
``metric_learn`` is imported from there: a check that silently monitored the
copy installed in site-packages would be evidence about the wrong code.
"""
import os
import sys

REPO = os.path.realpath(os.environ.get('VERIF_REPO', '/repo'))


def setup():
  if REPO not in sys.path[:1]:
    sys.path.insert(0, REPO)
  import metric_learn
  here = os.path.realpath(metric_learn.__file__)
  if not here.startswith(REPO + os.sep):
    sys.stderr.write('mlverif: metric_learn imported from %s, not from %s\n'
                     % (here, REPO))
    sys.exit(2)
  return metric_learn


def head():
  import subprocess
  try:
    h = subprocess.run(['git', '-C', REPO, 'rev-parse', 'HEAD'],
                       capture_output=True, text=True, timeout=20).stdout.strip()
    d = subprocess.run(['git', '-C', REPO, 'status', '--porcelain',
                        '--untracked-files=no'],
                       capture_output=True, text=True, timeout=20).stdout.strip()
    return h + ('+dirty' if d else '')
  except Exception:   # not a git checkout (scratch copy)
    return 'unknown'
