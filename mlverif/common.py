"""Helpers shared by the checks: spec -> dataset -> fitted estimator."""
import numpy as np

from . import estimators as E
from .core import rng_for, Quiet, tb
from .instrument import api, contracts
from .workloads import data as D


def setup_worker(tier=None):
  contracts.install_all()


def dataset(ds):
  rng = rng_for('ds', ds['seed'])
  return D.well_formed(rng, d=ds.get('d'), n_classes=ds.get('classes'),
                       variant=ds.get('variant', 'plain'),
                       nmax=ds.get('nmax'), dmax=ds.get('dmax', 8),
                       nmin=ds.get('nmin'),
                       # unless the spec says otherwise the label alphabet
                       # and the memory order vary with the dataset seed
                       labels=ds.get('labels', ['range', 'sparse']
                                     [ds['seed'] % 2]),
                       order=ds.get('order', ['C', 'C', 'F']
                                    [(ds['seed'] // 2) % 3]))


def build(spec, ds=None, **kw):
  ds = ds if ds is not None else dataset(spec['ds'])
  rng = rng_for('build', spec['ds']['seed'], spec.get('seed', 0), spec['est'])
  return E.build(spec['est'], ds, rng, params=spec.get('params'),
                 seed=spec.get('seed', 0), n_tuples=spec.get('n_tuples'),
                 **kw)


def fit(spec, judge, ds=None, well_formed=True, events=None, **kw):
  """Build and fit.  Returns (Fit, warnings) or (None, None) when fit raised
  (recorded as inconclusive 'fit-raised': whether fit may raise on this input
  is C03's question, not the caller's)."""
  f = build(spec, ds, **kw)
  api.set_judge(judge, well_formed=well_formed, events=events)
  with Quiet() as q:
    try:
      f.fit()
    except Exception as e:
      judge.skip('fit', 'raised-%s' % type(e).__name__)
      judge.note('fit raised: %s | %s' % (repr(e)[:300], spec))
      return None, None
    finally:
      api.set_well_formed(False)
  return f, q.w


def ds_specs(seed, pid, n, dmax=8, variants=('plain',), dmin=2):
  """n dataset specs with distinct seeds, cycling d and variants."""
  out = []
  for i in range(n):
    r = rng_for('dsspec', seed, pid, i)
    out.append({'seed': int(r.randint(0, 2**31 - 1)),
                'd': int(dmin + (i + r.randint(0, 2)) % (dmax - dmin + 1)),
                'classes': int(2 + (i // 2) % 3),
                'variant': variants[i % len(variants)],
                'labels': ['range', 'sparse'][(i // 2) % 2],
                'order': ['C', 'C', 'F'][i % 3]})
  return out
