"""C01 -- the learned distance is a finite pseudo-metric.

Workload: every estimator x option variants x well-formed datasets; per fitted
model, query triples of nine hostile classes submitted as 4-row groups
[(x,y),(y,z),(x,z),(x,x)] and, in a second equally shaped call, the row-wise
swapped batch (exactness protocol of DESIGN 2.4), and through the get_metric
closure.  Oracle: the axioms evaluated on the returned numbers only.
"""
import numpy as np

from .. import common, estimators as E
from ..core import rng_for, Quiet
from ..instrument import api
from ..workloads import configs, data as D

ID = 'C01'
LEVEL = 'exploration'
RULE = ('cases = estimator x option variant x seeded well-formed dataset; per '
        'fitted model query triples of 10 classes (training rows, gaussian, '
        'duplicates, 1-ulp neighbours, far outliers, magnitudes 1e-100..1e100 '
        'per triple and per point, integer, axis-aligned, differences in the '
        'null space of a rank-deficient L). An evaluation is '
        'one axiom judged on one monitored pair_distance / pair_score / '
        'metric_fun return event. distinct_nontrivial counts distinct '
        '(estimator, option variant, dataset fingerprint, query class) whose '
        'model is non-degenerate (components_ finite and not all zero) and '
        'whose batch contained at least one non-zero distance.')
ASSUMPTIONS = ['IEEE-754 double arithmetic; BLAS kernels are sign-symmetric '
               '(x -> -x) for equally shaped inputs at the same row',
               'triangle slack 64*eps*||L||_F*(|x-y|+|y-z|+|x-z|) (forward '
               'error bound of the transform-then-norm route)']
TIMEOUT = {'quick': 900, 'thorough': 3 * 3600}
EPS = np.finfo(float).eps

setup_worker = common.setup_worker


def cases(tier, seed):
  out = []
  nds = 2 if tier == 'quick' else 24
  nq = 24 if tier == 'quick' else 220
  variants = ('plain', 'unbalanced', 'offset', 'small_scale', 'large_scale',
              'illcond', 'int', 'dyadic')
  for ei, name in enumerate(E.ALL):
    dss = common.ds_specs(seed, 'C01' + name, nds,
                          dmax=5 if tier == 'quick' else 8,
                          variants=variants if tier != 'quick'
                          else (variants[(ei) % 8], variants[(ei + 3) % 8]))
    for di, ds in enumerate(dss):
      if tier == 'quick':
        cfgs = configs.light(name, ds['d'], ds['classes'])[:2]
      else:
        full = configs.product(name, ds['d'], ds['classes'])
        cfgs = configs.light(name, ds['d'], ds['classes']) + \
            configs.pairwise_cover(full, rng_for('cov', seed, name, di))[:6]
      for ci, cfg in enumerate(cfgs):
        out.append({'est': name, 'params': cfg, 'ds': ds, 'seed': seed % 1000,
                    'nq': nq, 'qseed': int(rng_for('q', seed, name, di,
                                                   ci).randint(2**31 - 1))})
  # learners whose metric is rank deficient by construction (MMC's projected
  # matrices, SCML's sparse combinations): "pseudo"-metrics proper, and the
  # eigen-decomposition path of the metric -> transformation step
  extra = 12 if tier == 'quick' else 200
  for name in ('MMC', 'MMC_Supervised', 'SCML_Supervised'):
    for ds in common.ds_specs(seed, 'C01x' + name, extra, dmax=5):
      out.append({'est': name, 'params': {}, 'ds': ds, 'seed': seed % 1000,
                  'nq': 6, 'qseed': int(rng_for('qx', seed, name,
                                                ds['seed']).randint(2**31 - 1))})
  return _with_repotests(out, tier)


def _with_repotests(out, tier):
  if tier != 'quick':
    from .. import repotests
    out.extend(repotests.specs())
  return out


def required(tier):
  n = 30 if tier == 'quick' else 200
  req = {'C01.symmetric': n, 'C01.identity': n, 'C01.triangle': n,
         'C01.nonneg': n, 'C01.finite': n, 'C01.score-negated': n,
         'C01.closure.symmetric': n, 'C01.closure.triangle': n,
         'G.C01.nonneg': n}
  return req


def _slack(Lfro, x, y, z):
  nrm = (np.linalg.norm(x - y, axis=-1) + np.linalg.norm(y - z, axis=-1) +
         np.linalg.norm(x - z, axis=-1))
  return 64 * EPS * Lfro * nrm + 1e-300


def run_case(spec, j):
  if spec.get('kind') == 'repotests':
    from .. import repotests
    return repotests.run(spec, j)
  f, _ = common.fit(spec, j)
  if f is None:
    return
  est = f.est
  L = est.components_
  if not (isinstance(L, np.ndarray) and L.dtype.kind == 'f'):
    j.skip('C01', 'degenerate-model')   # C03 judges this
    return
  if not np.all(np.isfinite(L)):
    # a learner fitted on well-formed data whose transformation holds NaN or
    # inf reports non-finite distances for every pair
    j.violated('C01.finite', {'est': spec['est'], 'params': spec.get('params'),
                              'why': 'components_ is not finite',
                              'components_': L},
               mechanism='non-finite-components')
    return
  Lfro = np.linalg.norm(L)
  L2 = np.linalg.norm(L, 2) if L.size else 0.0
  d = f.d
  api.set_judge(j)
  metric = est.get_metric()
  cfg_key = repr(sorted((k, repr(v)[:20]) for k, v in
                        (spec.get('params') or {}).items()))
  for qc in D.QUERY_CLASSES + ['nullspace']:
    rng = rng_for('query', spec['qseed'], qc)
    if qc == 'nullspace':
      T = D.nullspace_triples(rng, f.X, L, spec['nq'])
      if T is None:
        continue
    else:
      T = D.query_triples(rng, f.X, spec['nq'], qc)
    x, y, z = T[:, 0], T[:, 1], T[:, 2]
    n = len(T)
    A = np.empty((4 * n, 2, d))
    A[0::4, 0], A[0::4, 1] = x, y
    A[1::4, 0], A[1::4, 1] = y, z
    A[2::4, 0], A[2::4, 1] = x, z
    A[3::4, 0], A[3::4, 1] = x, x
    B = A[:, ::-1].copy()
    amax = np.abs(A).max()
    in_domain = (L2 * amax * 2) ** 2 * d < 1e300
    with Quiet():
      try:
        dA = est.pair_distance(A)
        dB = est.pair_distance(B)
        sA = est.pair_score(A)
      except ValueError as e:
        # differences that overflow are rejected by input validation: allowed
        # only outside the no-overflow domain
        if in_domain:
          j.violated('C01.finite', {'est': spec['est'], 'class': qc,
                                    'raised': repr(e)[:200]})
        else:
          j.skip('C01', 'overflow-rejected')
        continue
    j.count('events.pair_distance', 2)
    det = {'est': spec['est'], 'class': qc}
    # exact identities
    j.check('C01.symmetric', np.array_equal(dA, dB, equal_nan=True),
            dict(det, worst=np.nanmax(np.abs(dA - dB)) if len(dA) else 0))
    j.check('C01.identity', np.all(dA[3::4] == 0),
            dict(det, values=dA[3::4][dA[3::4] != 0][:3]))
    j.check('C01.score-negated', np.array_equal(sA, -dA, equal_nan=True), det)
    with np.errstate(invalid='ignore'):
      j.check('C01.nonneg', not np.any(dA < 0), dict(det, v=dA[dA < 0][:3]))
    if in_domain:
      j.check('C01.finite', bool(np.all(np.isfinite(dA))),
              dict(det, amax=amax, L2=L2))
    else:
      j.skip('C01.finite', 'possible-overflow')
    fin = np.isfinite(dA[0::4]) & np.isfinite(dA[1::4]) & np.isfinite(dA[2::4])
    if fin.any():
      lhs = dA[2::4][fin]
      rhs = dA[0::4][fin] + dA[1::4][fin]
      sl = _slack(Lfro, x[fin], y[fin], z[fin])
      excess = lhs - rhs
      ok = excess <= sl
      j.margin('C01.triangle', float(np.max(np.where(sl > 0, excess / sl,
                                                     0))))
      j.check('C01.triangle', bool(np.all(ok)),
              dict(det, excess=excess[~ok][:3], slack=sl[~ok][:3]))
    if np.any(dA[np.isfinite(dA)] > 0) and np.any(L != 0):
      j.distinct(spec['est'], cfg_key, spec['ds']['seed'], qc)
    # the closure (M-CLOSURE), on a subset
    m = min(n, 12 if spec['nq'] <= 30 else 60)
    sym_ok = ident_ok = tri_ok = nonneg_ok = fin_ok = True
    bad = None
    for i in range(m):
      with np.errstate(all='ignore'):
        dxy, dyx = metric(x[i], y[i]), metric(y[i], x[i])
        dyz, dxz = metric(y[i], z[i]), metric(x[i], z[i])
        dxx = metric(x[i], x[i])
        sq = metric(x[i], y[i], squared=True)
      if in_domain and not all(np.isfinite(v) for v in
                               (dxy, dyx, dyz, dxz, dxx, sq)):
        fin_ok = False
        bad = ('finite', i, dxy, dyz, dxz, sq)
      if sq < 0:
        nonneg_ok = False
        bad = ('nonneg-squared', i, sq)
      for v in (dxy, dyx, dyz, dxz, dxx):
        if not (v >= 0 or v != v):
          nonneg_ok = False
          bad = ('nonneg', i, v)
      if not (dxy == dyx or (dxy != dxy and dyx != dyx)):
        sym_ok = False
        bad = ('sym', i, dxy, dyx)
      if dxx != 0:
        ident_ok = False
        bad = ('ident', i, dxx)
      if i < 4 and np.all(np.abs(x[i]) < 2 ** 31):
        # arguments stored differently (an integer grid point given as a
        # list, a float vector): still symmetric, still a pseudo-metric
        xi = np.round(x[i]).astype(np.int64).tolist()
        with np.errstate(all='ignore'):
          a_, b_ = metric(xi, y[i]), metric(y[i], xi)
          c_, e_ = metric(xi, z[i]), metric(y[i], z[i])
        if not (a_ == b_ or (a_ != a_ and b_ != b_)):
          sym_ok = False
          bad = ('sym-mixed-dtypes', i, a_, b_)
        if np.isfinite(a_) and np.isfinite(c_) and np.isfinite(e_):
          sl_ = _slack(Lfro, np.round(x[i]), y[i], z[i])
          if e_ - (a_ + c_) > sl_:
            tri_ok = False
            bad = ('tri-mixed-dtypes', i, e_, a_, c_, sl_)
      if np.isfinite(dxy) and np.isfinite(dyz) and np.isfinite(dxz):
        sl = _slack(Lfro, x[i], y[i], z[i])
        if dxz - (dxy + dyz) > sl:
          tri_ok = False
          bad = ('tri', i, dxz, dxy, dyz, sl)
        # closure and method agree to rounding (C02 looks closer)
    j.count('events.closure', 5 * m)
    j.check('C01.closure.symmetric', sym_ok, dict(det, bad=bad))
    j.check('C01.closure.identity', ident_ok, dict(det, bad=bad))
    j.check('C01.closure.triangle', tri_ok, dict(det, bad=bad))
    j.check('C01.closure.nonneg', nonneg_ok, dict(det, bad=bad))
    if in_domain:
      j.check('C01.closure.finite', fin_ok, dict(det, bad=bad))
    if j.sample is None and qc == 'magnitude':
      j.sample = {'est': spec['est'], 'params': spec.get('params'),
                  'L_shape': L.shape, 'query_class': qc,
                  'first_triple': T[0], 'd(x,y),d(y,z),d(x,z),d(x,x)': dA[:4]}

LEVEL_TEXT = ('Exploration by runtime monitoring: the metric axioms are '
              'evaluated on the numbers returned by the real pair_distance / '
              'pair_score / get_metric() of every one of the 17 estimators, '
              'for thousands of hostile query triples (duplicates, 1-ulp '
              'neighbours, 1e-100..1e100 magnitudes, far outliers, low-rank '
              'transforms). Held on the executions listed in the evidence '
              'file; no claim beyond them. Right level because the property '
              'is a forall over inputs whose truth per execution is decided '
              'exactly by reading the returned values.')
LEVEL_NOTE = ('Trusts IEEE-754 arithmetic and that the harness-built datasets '
              'are well formed as the quantifier demands; identities are '
              'demanded bitwise, the triangle inequality up to a forward '
              'error bound with >100x margin over the worst slack observed.')
TECHNIQUE = ('runtime monitoring: online invariants on wrapped public '
             'methods + axiom oracle over returned distances under seeded '
             'hostile query workloads')
