"""C08 -- supervised variants equal the base learner on label-derived
constraints."""
import numpy as np

from .. import common, estimators as E
from ..core import rng_for, Quiet
from ..instrument import api, names

ID = 'C08'
LEVEL = 'exploration'
RULE = ('cases = the six *_Supervised estimators x constraint-generation '
        'parameters (n_constraints incl. the default, n_chunks, chunk_size, '
        'k_genuine, k_impostor) x prior/init/basis options (incl. random and '
        'covariance, which depend on tuples and seed) x integer seeds x '
        'label vectors with and without unknown (-1) labels, with a single '
        'unlabeled point, with a class of one member. Twin execution: '
        'supervised fit(X, y) vs the base learner fitted on constraints the '
        'harness derives with Constraints(y).<method>(random_state=seed) and '
        'forms itself (not through wrap_pairs). The Constraints methods are '
        'wrapped to capture what the supervised fit actually generated. An '
        'evaluation is one comparison of the twins\' Mahalanobis matrices or '
        'one known-labels-only judgement of captured constraints. '
        'distinct_nontrivial counts distinct (estimator, parameters, '
        'dataset, unknown-label pattern) with a non-identity learned matrix.')
ASSUMPTIONS = ['the default n_constraints (20*C^2) is exercised only for '
               'label vectors without -1 (the documentation does not say '
               'whether -1 counts as a class)',
               'equality of supervised fits on (X, y) and on (X[known], '
               'y[known]) is demanded for the pair/quadruplet based learners '
               'only (their random draws depend on the labeled points only)']
TIMEOUT = {'quick': 900, 'thorough': 3 * 3600}
_cap = {'pairs': [], 'chunks': [], 'triplets': [], 'lda': []}


def setup_worker(tier=None):
  common.setup_worker(tier)
  from metric_learn import constraints as C
  from metric_learn.scml import SCML_Supervised

  def fac(key):
    def factory(orig):
      def wrapper(self, *a, **k):
        r = orig(self, *a, **k)
        _cap[key].append((np.array(self.partial_labels, copy=True),
                          [np.array(x, copy=True) for x in r]
                          if isinstance(r, tuple) else np.array(r, copy=True)))
        return r
      return wrapper
    return factory
  names.wrap_method(C.Constraints, 'positive_negative_pairs', fac('pairs'))
  names.wrap_method(C.Constraints, 'chunks', fac('chunks'))
  names.wrap_method(C.Constraints, 'generate_knntriplets', fac('triplets'))

  def lda_factory(orig):
    def wrapper(self, X, y):
      r = orig(self, X, y)
      _cap['lda'].append((np.array(r[0], copy=True), r[1]))
      return r
    return wrapper
  names.wrap_method(SCML_Supervised, '_generate_bases_LDA', lda_factory)


def cases(tier, seed):
  out = []
  nrep = 12 if tier == 'quick' else 400
  for name in E.SUPERVISED_WEAK:
    dss = common.ds_specs(seed, 'C08' + name, nrep,
                          dmax=4 if tier == 'quick' else 7)
    for i, ds in enumerate(dss):
      r = rng_for('c8', seed, name, i)
      unknown = [0.0, 0.15, 0.35][i % 3]
      p = {}
      if name in ('ITML_Supervised', 'MMC_Supervised', 'SDML_Supervised',
                  'LSML_Supervised'):
        p['n_constraints'] = None if i % 4 == 3 else \
            [5, 20, 60, None][int(r.randint(0, 4))]
        # (with unknown labels the default count is ambiguous -- does -1
        # count as a class? -- so the twin accepts either reading)
        key = 'init' if name == 'MMC_Supervised' else 'prior'
        p[key] = ['identity', 'covariance', 'random', '@spd'][i % 4]
        if name == 'LSML_Supervised' and i % 2:
          p['weights'] = '@weights'
      elif name == 'RCA_Supervised':
        p['chunk_size'] = int(r.choice([2, 2, 3]))
        p['n_components'] = [None, 1][i % 2]
      else:
        p['k_genuine'] = int(r.randint(1, 4))
        p['k_impostor'] = int(r.randint(1, 5))
        p['basis'] = ['lda', 'triplet_diffs'][i % 2]
      out.append({'est': name, 'params': p, 'ds': dict(ds, nmax=70),
                  # (random_state = 0, the falsy integer seed, one case in
                  # six; the draw is made regardless so that the other cases
                  # keep their data)
                  'seed': int(r.randint(0, 10**6)) * int(i % 6 != 4),
                  'unknown': unknown,
                  # a class with a single member (it can give no similar pair
                  # but is a class all the same) / a single unlabeled point
                  'singleton': bool(name in ('ITML_Supervised',
                                             'MMC_Supervised',
                                             'SDML_Supervised',
                                             'LSML_Supervised') and
                                    i % 4 in (1, 3)),
                  'lone_unknown': bool(i % 6 == 0)})
  return out


def required(tier):
  n = 6 if tier == 'quick' else 40
  req = {'C08.twin.' + e: n for e in E.SUPERVISED_WEAK}
  req['C08.known-only'] = 6 * n
  req['C08.subset-equal'] = n
  return req


def run_case(spec, j):
  name = spec['est']
  base = name.replace('_Supervised', '')
  ds = common.dataset(spec['ds'])
  X = np.asarray(ds['X'], dtype=float)
  n, d = X.shape
  y = np.array(ds['y'], copy=True)
  rng = rng_for('c8run', spec['ds']['seed'], spec['seed'])
  if spec['unknown'] > 0:
    mask = rng.rand(n) < spec['unknown']
    # keep >= 3 known members per class so that constraints exist
    for c in np.unique(y):
      idx = np.where((y == c) & ~mask)[0]
      if len(idx) < 3:
        back = np.where((y == c) & mask)[0][:3 - len(idx)]
        mask[back] = False
    y[mask] = -1
  elif spec.get('lone_unknown'):
    y[int(rng.randint(n))] = -1
  if spec.get('singleton'):
    cand = np.where(y >= 0)[0]
    cnt = {c: int((y == c).sum()) for c in np.unique(y[cand])}
    cand = [i for i in cand if cnt[y[i]] > 4]
    if cand:
      y[cand[int(rng.randint(len(cand)))]] = y.max() + 7
  ds2 = dict(ds, y=y)
  params = dict(spec['params'])
  if params.get('weights') == '@weights':
    params.pop('weights')
    want_weights = True
  else:
    want_weights = False
  if name == 'RCA_Supervised':
    cs = params['chunk_size']
    known = y >= 0
    feas = sum(int(((y == c) & known).sum()) // cs for c in np.unique(y[known]))
    need = int(np.ceil((d + 1) / (cs - 1)))
    if feas < need:
      j.skip('C08', 'not-enough-chunks-for-full-rank')
      return
    params['n_chunks'] = int(min(feas, need + 3))
  spec2 = dict(spec, params=params)
  f = common.build(spec2, ds2)
  pfull = dict(f.meta['params'])
  seed = pfull.get('random_state')
  if want_weights:
    # weights must match the number of generated quadruplets: learn it first
    pass
  for k in _cap:
    del _cap[k][:]
  api.set_judge(j, well_formed=True)
  det = {'est': name, 'params': spec['params'], 'unknown_frac': spec['unknown'],
         'seed': seed, 'n': n, 'd': d}
  from metric_learn.constraints import Constraints
  sup = f.est
  with Quiet():
    if want_weights:
      nc_w = pfull.get('n_constraints')
      if nc_w is None:
        nc_w = 20 * len(np.unique(y)) ** 2
      a, b, c, dd = Constraints(y).positive_negative_pairs(
          nc_w, same_length=True, random_state=seed)
      w = rng.uniform(0.5, 2.0, size=len(a))
      sup.set_params(weights=w)
      pfull['weights'] = w
    # the estimator receives the labels in some container / dtype; the twin
    # below derives its constraints from the canonical int64 vector
    forms = ['int64', 'int32', 'float64', 'list']
    if y.min() >= 0 and y.max() < 256:
      forms += ['uint8', 'uint16']
    form = forms[(spec['seed'] + spec['ds']['seed']) % len(forms)]
    yarg = y.tolist() if form == 'list' else y.astype(form)
    det['labels_as'] = form
    sup_err = None
    # ITML_Supervised.fit takes the distance bounds as a fit argument: any two
    # numbers in any container, ascending or not, must reach the base learner
    # as given (the twin receives the same object)
    fit_kw = {}
    if name == 'ITML_Supervised' and \
        (spec['seed'] + 3 * spec['ds']['seed']) % 3 != 0:
      brng = np.random.RandomState((spec['seed'] * 7919 +
                                    spec['ds']['seed']) % (2**31 - 1))
      from scipy.spatial.distance import pdist
      pd_ = pdist(X[:200])
      pd_ = pd_[pd_ > 0]
      if pd_.size:
        lo, hi = np.percentile(pd_, [brng.uniform(5, 40),
                                     brng.uniform(60, 95)])
        pair_ = [float(lo), float(hi)]
        if brng.rand() < 0.5:
          pair_ = pair_[::-1]
        kind_ = ['list', 'tuple', 'array', 'int-array'][brng.randint(4)]
        if kind_ == 'tuple':
          pair_ = tuple(pair_)
        elif kind_ == 'array':
          pair_ = np.array(pair_)
        elif kind_ == 'int-array':
          pair_ = np.array([max(1, int(round(v))) for v in pair_])
          if pair_[0] == pair_[1]:
            pair_[1] += 1
        fit_kw['bounds'] = pair_
        det['bounds'] = pair_
        j.count('C08.itml-explicit-bounds')
    try:
      sup.fit(X, yarg, **fit_kw)
    except Exception as e:
      api.set_well_formed(False)
      if name == 'SDML_Supervised' and isinstance(e, RuntimeError):
        j.skip('C08', 'sdml-solver-failure')
        return
      # decided below: if the base learner returns on the derived
      # constraints, the supervised variant had no business raising
      sup_err = e
  api.set_well_formed(False)
  Msup = sup.get_mahalanobis_matrix() if sup_err is None else None
  # ---- captured constraints only use known labels
  for key in ('pairs', 'chunks', 'triplets'):
    for labels, r in _cap[key]:
      # judged against the labels the *caller* passed (indices refer to the
      # caller's arrays), not against whatever the helper was handed
      labels = y
      if key == 'pairs':
        idx = np.concatenate([np.ravel(x) for x in r]).astype(int)
        ok = bool(np.all(labels[idx] >= 0)) if idx.size else True
      elif key == 'chunks':
        ok = bool(np.all(np.asarray(r)[labels < 0] == -1))
      else:
        ok = bool(np.all(labels[np.asarray(r, dtype=int)] >= 0))
      j.check('C08.known-only', ok, dict(det, kind=key))
  # ---- the base learner on harness-derived constraints
  bp = {k: v for k, v in pfull.items()
        if k not in ('n_constraints', 'n_chunks', 'chunk_size', 'k_genuine',
                     'k_impostor', 'weights')}
  Base = E.cls(base)
  import inspect
  accepted = set(inspect.signature(Base.__init__).parameters)
  bp = {k: v for k, v in bp.items() if k in accepted}
  with Quiet():
    try:
      twins = []
      if name in ('ITML_Supervised', 'MMC_Supervised', 'SDML_Supervised',
                  'LSML_Supervised'):
        nc = pfull.get('n_constraints')
        ncs = [nc] if nc is not None else sorted(set(
            [20 * len(np.unique(y)) ** 2,
             20 * len(np.unique(y[y >= 0])) ** 2]))
        if want_weights:
          ncs = [nc_w]     # the weights were sized for this count
        last_err = None
        for nc in ncs:
          # with an ambiguous default count only the reading the library
          # actually uses has to fit: the other one is the harness's guess
          try:
            if name != 'LSML_Supervised':
              a, b, c, dd = Constraints(y).positive_negative_pairs(
                  nc, random_state=seed)
              idx = np.vstack([np.column_stack([a, b]),
                               np.column_stack([c, dd])])
              lab = np.r_[np.ones(len(a)), -np.ones(len(c))]
              twins.append(Base(**bp).fit(X[idx], lab, **fit_kw))
            else:
              a, b, c, dd = Constraints(y).positive_negative_pairs(
                  nc, same_length=True, random_state=seed)
              quad = X[np.column_stack([a, b, c, dd])]
              twins.append(Base(**bp).fit(quad,
                                          weights=pfull.get('weights')))
          except Exception as e:
            last_err = e
            j.count('twin-candidate-raised')
        if not twins:
          raise last_err
        twin = twins[0]
      elif name == 'RCA_Supervised':
        ch = Constraints(y).chunks(n_chunks=pfull['n_chunks'],
                                   chunk_size=pfull['chunk_size'],
                                   random_state=seed)
        twin = Base(**bp).fit(X, ch)
      else:
        T = Constraints(y).generate_knntriplets(X, pfull['k_genuine'],
                                                pfull['k_impostor'])
        if pfull.get('basis') == 'lda':
          if not _cap['lda']:
            j.skip('C08.twin.' + name, 'lda-basis-not-captured')
            return
          basis, nb = _cap['lda'][-1]
          bp['basis'] = basis
          bp['n_basis'] = int(nb)
        twin = Base(**bp).fit(X[T])
    except Exception as e:
      if sup_err is not None:
        # both routes refuse this input: C03's question, not C08's
        j.skip('fit', 'raised-%s' % type(sup_err).__name__)
        j.note('supervised fit raised %r %s' % (sup_err, spec))
        return
      j.violated('C08.twin.' + name,
                 dict(det, why='base learner raised on the derived '
                      'constraints', raised=repr(e)[:300]))
      return
  if sup_err is not None:
    j.violated('C08.twin.' + name,
               dict(det, why='the supervised fit raised although the base '
                    'learner returns on the label-derived constraints',
                    raised=repr(sup_err)[:300]),
               mechanism='supervised-fit-raised-' + type(sup_err).__name__)
    return
  Mtw = twin.get_mahalanobis_matrix()
  scale = max(np.abs(Msup).max(), 1e-300)
  if len(locals().get('ncs', [])) > 1:
    # ambiguous default count: accept the reading that matches
    for tw in twins:
      Mc = tw.get_mahalanobis_matrix()
      if Mc.shape == Msup.shape and np.abs(Mc - Msup).max() <= 1e-10 * scale:
        Mtw = Mc
        break
  j.close('C08.twin.' + name, Mtw, Msup, 1e-10 * scale, det)
  j.count('bitwise-equal' if np.array_equal(Mtw, Msup) else 'not-bitwise')
  if not np.allclose(Msup, np.eye(d)):
    j.distinct(name, repr(sorted(spec['params'].items())), spec['ds']['seed'],
               spec['unknown'])
  # ---- unknown labels: same model as on the labeled subset alone
  if spec['unknown'] > 0 and pfull.get('n_constraints') is not None and \
          name in ('ITML_Supervised', 'MMC_Supervised', 'SDML_Supervised',
                   'LSML_Supervised'):
    known = y >= 0
    from sklearn.base import clone
    with Quiet():
      try:
        sub = clone(sup).fit(X[known], y[known], **fit_kw)
        j.close('C08.subset-equal', sub.get_mahalanobis_matrix(), Msup,
                1e-10 * scale, det)
      except Exception as e:
        j.violated('C08.subset-equal', dict(det, raised=repr(e)[:200]))
  if name == 'RCA_Supervised' and (y < 0).any():
    # unlabeled points give no chunks: a request one above what the labeled
    # points can supply is as impossible with them as without them
    from sklearn.base import clone
    cs = pfull['chunk_size']
    cap = sum(int((y == c_).sum()) // cs for c_ in np.unique(y[y >= 0]))
    for yy, XX, tag in ((y, X, 'with-unlabeled'),
                        (y[y >= 0], X[y >= 0], 'labeled-only')):
      try:
        with Quiet():
          clone(sup).set_params(n_chunks=cap + 1).fit(XX, yy)
        j.violated('C08.rca-infeasible-raises',
                   dict(det, which=tag, capacity=cap, requested=cap + 1,
                        n_unlabeled=int((y < 0).sum())))
      except ValueError:
        j.ok('C08.rca-infeasible-raises')
      except Exception as e:
        j.violated('C08.rca-infeasible-raises',
                   dict(det, which=tag, raised=repr(e)[:200]))
  if j.sample is None:
    j.sample = dict(det, M_supervised=Msup, M_base_on_constraints=Mtw,
                    y_head=y[:12])


LEVEL_TEXT = ('Exploration by runtime monitoring with twin execution: each '
              'supervised estimator is fitted on (X, y) while the Constraints '
              'helper is wrapped to record what it generated; the base '
              'learner is then fitted on constraints that the harness derives '
              'and forms independently, and the two learned matrices are '
              'compared (observed bitwise equal; verdict at 1e-10 relative). '
              'Held on the executions in the evidence file.')
LEVEL_NOTE = ('Uses the repository\'s Constraints class to derive the '
              'reference constraints (that is what the property states); its '
              'own soundness is C07\'s business. Pairs and quadruplets are '
              'formed by the harness, not by wrap_pairs.')
TECHNIQUE = ('runtime monitoring: twin-execution differential oracle '
             '(supervised vs base learner on harness-derived constraints) + '
             'wrapped constraint generators')
