"""C16 -- threshold calibration picks an optimal cut-off for the chosen
criterion."""
from fractions import Fraction

import numpy as np

from .. import common, estimators as E
from ..core import rng_for, Quiet
from ..instrument import api, names

ID = 'C16'
LEVEL = 'exploration'
RULE = ('cases = {ITML, MMC, SDML} fitted once per seeded dataset; per model '
        'many validation sets of 2..40 pairs constructed so that learned '
        'distances tie (pairs over a pool of 3-5 points, duplicated pairs '
        'with conflicting labels, zero distances, lattice points in the '
        'embedded space) x strategy {accuracy, f_beta, max_tpr, max_tnr} x '
        'beta {0, 0.5, 1, 2, 1e3} x min_rate {0, 0.2, 0.5, 0.8, 1}; through '
        'calibrate_threshold and through fit(calibration_params=...). After '
        'each calibration the real predict (with the stored threshold_) is '
        'scored and compared, with exact rational arithmetic on the '
        'confusion counts, with the brute-force optimum over all cut-offs '
        '{reject all} + {distinct distances}. Invalid parameters must raise '
        'ValueError before any fitting work (entries of the solver and of '
        'nested API calls are counted). An evaluation is one calibration '
        'judged. distinct_nontrivial counts distinct (estimator, dataset, '
        'validation set, strategy, parameter) whose validation set contains '
        'both labels and at least one tie or label conflict.')
ASSUMPTIONS = ['"any distance threshold" = the cut-offs {below all '
               'distances} + {each distinct distance}, which realise every '
               'achievable prediction vector of the rule d <= threshold']
TIMEOUT = {'quick': 1200, 'thorough': 4 * 3600}
CASE_TIMEOUT = {'quick': 400, 'thorough': 1800}
_cnt = {'_fit': 0, '_prepare': 0}
LEARNERS = ['ITML', 'MMC', 'SDML']
BETAS = [0, 0.5, 1, 2, 1000]
RATES = [0, 0.2, 0.5, 0.8, 1, 1e-300, 1e-17]


def setup_worker(tier=None):
  common.setup_worker(tier)
  from metric_learn import itml, mmc, sdml
  from metric_learn.base_metric import BaseMetricLearner

  def fac(key):
    def factory(orig):
      def wrapper(self, *a, **k):
        _cnt[key] += 1
        return orig(self, *a, **k)
      return wrapper
    return factory
  for cls in (itml._BaseITML, mmc._BaseMMC, sdml._BaseSDML):
    names.wrap_method(cls, '_fit', fac('_fit'))
  names.wrap_method(BaseMetricLearner, '_prepare_inputs', fac('_prepare'))


def cases(tier, seed):
  out = []
  q = tier == 'quick'
  nds = 5 if q else 60
  nsets = 8 if q else 70
  for name in LEARNERS:
    dss = common.ds_specs(seed, 'C16' + name, nds, dmax=4)
    for di, ds in enumerate(dss):
      out.append({'est': name, 'params': {}, 'ds': dict(ds, nmax=40),
                  'seed': seed % 1000, 'nsets': nsets,
                  'vseed': int(rng_for('c16', seed, name, di)
                               .randint(2**31 - 1))})
  return out


def required(tier):
  q = tier == 'quick'
  n = 60 if q else 2000
  return {'C16.accuracy': n, 'C16.f_beta': 4 * n, 'C16.max_tpr': 4 * n,
          'C16.max_tnr': 4 * n, 'C16.via-fit': 6 if q else 30,
          'C16.invalid-rejected-early': 40 if q else 200}


# --------------------------------------------------------------- brute force
def confusion(pred, y):
  tp = int(np.sum((pred == 1) & (y == 1)))
  fp = int(np.sum((pred == 1) & (y == -1)))
  fn = int(np.sum((pred == -1) & (y == 1)))
  tn = int(np.sum((pred == -1) & (y == -1)))
  return tp, fp, fn, tn


def criterion(strategy, c, beta=None):
  tp, fp, fn, tn = c
  if strategy == 'accuracy':
    return Fraction(tp + tn, tp + fp + fn + tn)
  if strategy == 'f_beta':
    b2 = Fraction(beta) ** 2 if not isinstance(beta, float) else \
        Fraction(str(beta)) ** 2
    if tp == 0:
      return Fraction(0)
    return (1 + b2) * tp / ((1 + b2) * tp + b2 * fn + fp)
  if strategy == 'tpr':
    return Fraction(tp, tp + fn)
  if strategy == 'tnr':
    return Fraction(tn, tn + fp)
  raise ValueError(strategy)


def constrained_ok(cuts, c, obj, con, min_rate):
  """Best `obj` rate among cut-offs whose `con` rate is >= min_rate.  Rates
  are ratios of counts; "k of n" meets a min_rate written as the float k / n
  (1 of 10 meets 0.1): the ratio, correctly rounded to a double, is compared
  with the double the caller passed."""
  m = float(min_rate)
  feas = [x for x in cuts if float(criterion(con, x)) >= m]
  bests = set()
  if feas:
    bests.add(max(criterion(obj, x) for x in feas))
  ok = float(criterion(con, c)) >= m and criterion(obj, c) in bests
  return ok, sorted(bests)


def all_cutoffs(D, y):
  """Confusion counts of every achievable prediction d <= t."""
  out = []
  for t in [-1.0] + sorted(set(D.tolist())):
    pred = np.where(D <= t, 1, -1)
    out.append(confusion(pred, y))
  return out


def validation_set(rng, est, X, style):
  """(pairs, labels) with engineered ties; both labels present."""
  n, d = X.shape
  m = int(rng.randint(2, 41))
  if style == 'pool':
    pool = X[rng.choice(n, size=int(rng.randint(3, 6)), replace=False)]
    idx = rng.randint(0, len(pool), size=(m, 2))
    P = pool[idx]
  elif style == 'dup':
    base = X[rng.randint(0, n, size=(max(1, m // 3), 2))]
    P = base[rng.randint(0, len(base), size=m)]
  elif style == 'zero':
    P = X[rng.randint(0, n, size=(m, 2))]
    z = rng.rand(m) < 0.4
    P[z, 1] = P[z, 0]
  elif style == 'ulp':
    # distances that are neighbouring doubles, similar pairs just below
    # dissimilar ones: the optimal cut-off separates two adjacent numbers
    u = rng.randn(d)
    t = 10.0 ** rng.uniform(-2, 2)
    m = 12
    P = np.zeros((m, 2, d))
    for k_ in range(8):
      P[k_, 1] = (t * (1.0 + k_ * 2.0 ** -52)) * u
    P[8:10, 1] = 0.25 * t * u[None] * rng.uniform(0.5, 1.0, size=(2, 1))
    P[10:, 1] = 4.0 * t * u[None] * rng.uniform(1.0, 2.0, size=(2, 1))
    y = np.array([1, 1, 1, 1, -1, -1, -1, -1, 1, 1, -1, -1])
    cut = int(rng.randint(2, 7))
    y[:8] = np.where(np.arange(8) < cut, 1, -1)
    perm = rng.permutation(m)
    return P[perm], y[perm]
  elif style == 'allzero':
    # every pair is a point with itself (or differs from it only by exact
    # zeros): all learned distances are 0, accepting everything or nothing
    # are the only choices, and which one is right depends on the labels
    m = int(rng.randint(2, 9))
    base = X[rng.randint(0, n, size=m)]
    P = np.stack([base, base], axis=1)
    npos = int(rng.randint(1, m))
    y = np.r_[np.ones(npos, dtype=int), -np.ones(m - npos, dtype=int)]
    return P, y[rng.permutation(m)]
  elif style == 'lattice':
    L = est.components_
    if L.shape[0] == L.shape[1] and np.linalg.cond(L) < 1e8:
      Z = rng.randint(0, 3, size=(m, 2, d)).astype(float)
      P = np.linalg.solve(L, Z.reshape(-1, d).T).T.reshape(m, 2, d)
    else:
      P = X[rng.randint(0, n, size=(m, 2))]
  elif style == 'huge':
    # distances of 1e16 .. 1e18 and beyond (coordinates in nanometres,
    # identifiers): neighbouring doubles are more than 1 apart, and the
    # closest pairs are dissimilar, so that accepting nothing is optimal
    m = int(rng.randint(3, 12))
    P = X[rng.randint(0, n, size=(m, 2))] * 10.0 ** rng.uniform(17, 19)
    y = rng.choice([-1, 1], size=m)
    y[0], y[-1] = 1, -1
    with np.errstate(all='ignore'):
      order_ = np.argsort(est.pair_distance(P))
    y[order_[:2]] = -1
    if not (y == 1).any():
      y[order_[-1]] = 1
    return P, y
  else:
    P = X[rng.randint(0, n, size=(m, 2))]
  y = rng.choice([-1, 1], size=m)
  y[0], y[-1] = 1, -1
  return P, y


def run_case(spec, j):
  name = spec['est']
  ds = common.dataset(spec['ds'])
  X = np.asarray(ds['X'], dtype=float)
  f, _ = common.fit(spec, j, ds=ds)
  if f is None:
    return
  est = f.est
  if not np.all(np.isfinite(est.components_)):
    j.skip('C16', 'degenerate-model')
    return
  api.set_judge(j)
  rng = rng_for('c16run', spec['vseed'])
  det0 = {'est': name}
  styles = ['pool', 'dup', 'zero', 'lattice', 'random', 'ulp', 'allzero',
            'huge']
  for s in range(spec['nsets']):
    style = styles[s % len(styles)]
    P, y = validation_set(rng, est, X, style)
    with Quiet():
      D = est.pair_distance(P)
    if not np.all(np.isfinite(D)):
      j.skip('C16', 'non-finite-distances')
      continue
    cuts = all_cutoffs(D, y)
    tied = len(set(D.tolist())) < len(D)
    det = dict(det0, style=style, n_pairs=len(y))
    combos = [('accuracy', {})]
    combos += [('f_beta', {'beta': b}) for b in BETAS]
    combos += [('max_tpr', {'min_rate': r}) for r in RATES]
    combos += [('max_tnr', {'min_rate': r}) for r in RATES]
    # rates that a cut-off attains exactly (k negatives of n kept apart:
    # min_rate = k / n as the caller would write it, e.g. 0.1 for 1 of 10)
    n_neg_, n_pos_ = int((y != 1).sum()), int((y == 1).sum())
    for k_ in sorted(set([1, n_neg_ // 3, n_neg_ - 1]) - {0}):
      if 0 < k_ <= n_neg_:
        combos.append(('max_tpr', {'min_rate': k_ / n_neg_}))
    for k_ in sorted(set([1, n_pos_ // 3, n_pos_ - 1]) - {0}):
      if 0 < k_ <= n_pos_:
        combos.append(('max_tnr', {'min_rate': k_ / n_pos_}))
    for strat, kw in combos:
      with Quiet():
        try:
          est.calibrate_threshold(P, y, strategy=strat, **kw)
          pred = est.predict(P)
        except Exception as e:
          j.violated('C16.' + strat, dict(det, params=kw,
                                          raised=repr(e)[:200]),
                     mechanism='calibrate-raised-' + type(e).__name__)
          continue
      c = confusion(pred, y)
      wit = dict(det, params=kw, distances=D, labels=y,
                 threshold=est.threshold_, confusion=c)
      if strat == 'accuracy':
        best = max(criterion('accuracy', x) for x in cuts)
        got = criterion('accuracy', c)
        j.check('C16.accuracy', got == best,
                dict(wit, attained=str(got), optimum=str(best)))
      elif strat == 'f_beta':
        best = max(criterion('f_beta', x, kw['beta']) for x in cuts)
        got = criterion('f_beta', c, kw['beta'])
        j.check('C16.f_beta', got == best,
                dict(wit, attained=str(got), optimum=str(best)))
      else:
        obj, con = ('tpr', 'tnr') if strat == 'max_tpr' else ('tnr', 'tpr')
        ok, bests = constrained_ok(cuts, c, obj, con, kw['min_rate'])
        j.check('C16.' + strat, ok,
                dict(wit, attained_objective=str(criterion(obj, c)),
                     attained_constraint=str(criterion(con, c)),
                     optimum=[str(b) for b in bests]))
      if tied:
        j.distinct(name, spec['ds']['seed'], s, strat, repr(kw))
    if j.sample is None and tied:
      j.sample = dict(det, distances=D[:10], labels=y[:10],
                      cutoffs=len(cuts))
  # ---- through fit(..., calibration_params=...)
  from sklearn.base import clone
  pairs, lab = f.args[0], np.asarray(f.args[1])
  for strat, kw in (('accuracy', {}), ('f_beta', {'beta': 2}),
                    ('max_tpr', {'min_rate': 0.5}),
                    ('max_tnr', {'min_rate': 0.5})):
    e2 = clone(est)
    # one dict serves several fits (a parameter grid, a refit loop): the
    # model judged is that of the *second* fit given the same dict object
    cp = dict(kw, strategy=strat)
    with Quiet():
      try:
        clone(est).fit(pairs, lab, calibration_params=cp)
        j.check('C16.via-fit.params-dict-untouched',
                cp == dict(kw, strategy=strat),
                dict(det0, strategy=strat, after=repr(cp)))
        e2.fit(pairs, lab, calibration_params=cp)
        D = e2.pair_distance(pairs)
        pred = e2.predict(pairs)
      except Exception as e:
        if name.startswith('SDML') and isinstance(e, RuntimeError):
          j.skip('C16.via-fit', 'sdml-solver-failure')
        else:
          # the same estimator was fitted on these pairs a moment ago with
          # the default calibration: valid calibration_params must not make
          # fit (or the classifier fitted that way) raise
          j.violated('C16.via-fit', dict(det0, strategy=strat,
                                         raised=repr(e)[:300]),
                     mechanism='fit-with-calibration_params-raised-' +
                     type(e).__name__)
        continue
    cuts = all_cutoffs(D, lab)
    c = confusion(pred, lab)
    if strat == 'accuracy':
      ok = criterion('accuracy', c) == max(criterion('accuracy', x)
                                           for x in cuts)
    elif strat == 'f_beta':
      ok = criterion('f_beta', c, 2) == max(criterion('f_beta', x, 2)
                                            for x in cuts)
    elif strat == 'max_tpr':
      ok, _ = constrained_ok(cuts, c, 'tpr', 'tnr', 0.5)
    else:
      ok, _ = constrained_ok(cuts, c, 'tnr', 'tpr', 0.5)
    j.check('C16.via-fit', ok, dict(det0, strategy=strat, confusion=c))
  # ---- invalid parameters are rejected before any work
  P, y = validation_set(rng, est, X, 'random')
  bad = [dict(strategy='foo'), dict(strategy=None)]
  bad += [dict(strategy=s, min_rate=r) for s in ('max_tpr', 'max_tnr')
          for r in (None, -0.1, 1.1, 'a', float('nan'), np.float64('nan'),
                    float('inf'), -float('inf'), [0.5], 1 + 0j)]
  bad += [dict(strategy='f_beta', beta=b) for b in (None, 'a')]
  for kw in bad:
    # calibrate_threshold
    ev = []
    api.set_judge(j, events=ev)
    before = dict(_cnt)
    thr0 = est.threshold_
    try:
      with Quiet():
        est.calibrate_threshold(P, y, **kw)
      j.violated('C16.invalid-rejected-early', dict(det0, params=kw,
                                                    why='accepted'))
    except ValueError:
      nested = [e for e in ev if e[0] > 1]
      j.check('C16.invalid-rejected-early',
              not nested and _cnt['_prepare'] == before['_prepare'] and
              est.threshold_ == thr0,
              dict(det0, params=kw, nested=nested[:3]))
    except Exception as e:
      j.violated('C16.invalid-rejected-early',
                 dict(det0, params=kw, raised=type(e).__name__))
    # fit(calibration_params=...)
    e2 = clone(est)
    before = dict(_cnt)
    try:
      with Quiet():
        e2.fit(pairs, lab, calibration_params=kw)
      j.violated('C16.invalid-rejected-early',
                 dict(det0, params=kw, why='fit accepted'))
    except ValueError:
      j.check('C16.invalid-rejected-early',
              _cnt['_fit'] == before['_fit'] and
              not hasattr(e2, 'components_'),
              dict(det0, params=kw, via='fit',
                   solver_entries=_cnt['_fit'] - before['_fit']))
    except Exception as e:
      j.violated('C16.invalid-rejected-early',
                 dict(det0, params=kw, via='fit', raised=type(e).__name__))
  api.set_judge(j)


LEVEL_TEXT = ('Exploration by runtime monitoring with a brute-force oracle: '
              'after every calibration of the real ITML / MMC / SDML on a '
              'validation set engineered to contain tied distances, '
              'conflicting duplicates and zero distances, the real predict '
              'is scored and the criterion attained is compared -- in exact '
              'rational arithmetic on the confusion counts -- with the '
              'optimum over all achievable cut-offs. Invalid parameters are '
              'observed to raise ValueError with zero entries into the '
              'solver / input preparation. Held on the executions in the '
              'evidence file.')
LEVEL_NOTE = ('The oracle enumerates every achievable prediction vector of '
              'the rule d <= threshold, so its optimum is exact for the '
              'validation set at hand; no floating-point tolerance is used.')
TECHNIQUE = ('runtime monitoring: brute-force optimality oracle on the '
             'outputs of predict after calibration + entry counters on '
             'wrapped solver methods')
