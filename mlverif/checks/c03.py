"""C03 -- fit on well-formed input yields a valid Mahalanobis model."""
import numpy as np

from .. import common, estimators as E
from ..core import rng_for, Quiet
from ..instrument import api, names
from ..workloads import configs

ID = 'C03'
LEVEL = 'exploration'
RULE = ('cases = estimator x configuration from the documented option '
        'product (thorough: enumerated completely per dataset dimension; '
        'quick: pairwise-covering subset) x seeded well-formed dataset of 8 '
        'hostile variants. An evaluation is one predicate on the state '
        'observed at the fit return event (return value, components_ '
        'dtype/ndim/shape/finite-ness, M symmetric PSD, n_features_in_, '
        'transform shape, SCML low-rank warning vs captured weights). '
        'distinct_nontrivial counts distinct (estimator, configuration, '
        'dataset) whose fit returned with components_ not identically zero.')
ASSUMPTIONS = ['harness-built datasets/tuples are well formed as the '
               'quantifier demands (continuous features, n >= 4d, >= 2 classes '
               'with >= 4 members, no collapsed pairs); SDML balance_param is '
               'chosen so that the graphical-lasso input is positive definite; '
               'RCA chunk layouts have full-rank within-chunk covariance']
TIMEOUT = {'quick': 900, 'thorough': 4 * 3600}
CASE_TIMEOUT = {'quick': 300, 'thorough': 900}
EPS = np.finfo(float).eps
EXHAUSTIVE = {}

_captured = {'scml': []}


def setup_worker(tier=None):
  common.setup_worker(tier)
  from metric_learn.scml import _BaseSCML

  def factory(orig):
    def wrapper(self, basis, w):
      r = orig(self, basis, w)
      _captured['scml'].append((np.array(basis, copy=True),
                                np.array(w, copy=True), np.asarray(r).shape))
      return r
    return wrapper
  names.wrap_method(_BaseSCML, '_components_from_basis_weights', factory)


VARIANTS = ('plain', 'unbalanced', 'offset', 'small_scale', 'large_scale',
            'illcond', 'int', 'dyadic')


def cases(tier, seed):
  out = []
  nds = 3 if tier == 'quick' else 40
  for ei, name in enumerate(E.ALL):
    dss = common.ds_specs(seed, 'C03' + name, nds,
                          dmax=5 if tier == 'quick' else 8,
                          variants=VARIANTS if tier != 'quick' else
                          tuple(VARIANTS[(ei + i) % 8] for i in range(3)))
    # one unbalanced dataset (a class of exactly 4 members) at the largest
    # dimensionality of the tier, whatever the cycle above produced
    dss = list(dss) + [dict(dss[0], variant='unbalanced',
                            d=5 if tier == 'quick' else 8,
                            seed=dss[0]['seed'] + 17)]
    # d + 1 classes whose means lie in a common hyperplane (between-class
    # scatter of rank d - 1): supervised learners that run a discriminant
    # analysis get fewer directions than classes - 1
    for dd_ in ((3, 2) if tier == 'quick' else (2, 3, 4, 3, 2, 4)):
      dss.append(dict(dss[0], variant='coplanar', d=dd_, classes=dd_ + 1,
                      seed=dss[0]['seed'] + 31 * dd_ + len(dss)))
      dss.append(dict(dss[0], variant='illcond5', d=dd_, classes=dd_ + 1,
                      seed=dss[0]['seed'] + 37 * dd_ + len(dss)))
    # data far from the origin: every learner is translation invariant on
    # paper, sums of uncentred products are not
    for dd_ in ((3,) if tier == 'quick' else (2, 3, 4, 5, 3, 2)):
      dss.append(dict(dss[0], variant='far_offset', d=dd_,
                      seed=dss[0]['seed'] + 41 * dd_ + len(dss)))
    for di, ds in enumerate(dss):
      full = configs.product(name, ds['d'], ds['classes'])
      if tier == 'quick':
        cfgs = configs.pairwise_cover(full, rng_for('c3', seed, name, di))
        cfgs = cfgs[:10]
      else:
        cfgs = full
      for cfg in cfgs:
        out.append({'est': name, 'params': cfg, 'ds': ds,
                    'seed': (seed * 7 + di) % 1000})
      # numeric hyper-parameters drawn inside their documented ranges
      for h in range(2 if tier == 'quick' else 40):
        r = rng_for('c3h', seed, name, di, h)
        cfg = dict(full[int(r.randint(len(full)))])
        hp = configs.random_hyper(name, ds['d'], ds['classes'], r)
        if 'n_basis' in cfg and cfg['n_basis'] is not None:
          hp.pop('n_basis', None)
        cfg.update({k_: v for k_, v in hp.items() if k_ not in cfg or
                    k_ in ('k',)})
        out.append({'est': name, 'params': cfg, 'ds': ds, 'hyper': True,
                    'seed': int(r.randint(1000))})
  # noisily annotated triplets: a handful of relative judgments of which
  # every one is also present the other way round ((a, b, c) and (a, c, b)).
  # Nothing in the contract forbids contradictory judgments, no pair is
  # collapsed, and SCML's triplet_diffs basis builder has to cope with draws
  # whose difference matrix cancels.
  for h in range(40 if tier == 'quick' else 600):
    r = rng_for('c3n', seed, h)
    out.append({'est': 'SCML', 'contradict': int(2 + h % 3),
                'params': {'basis': 'triplet_diffs',
                           'n_basis': [None, 8, 20][h % 3]},
                'ds': {'seed': int(r.randint(2**31 - 1)), 'd': 2,
                       'classes': 2, 'labels': 'range', 'order': 'C',
                       'variant': ['dyadic', 'plain', 'int'][h % 3 if h % 2
                                                             else 0]},
                'seed': int(r.randint(100000))})
  return out


def required(tier):
  n = 100 if tier == 'quick' else 1000
  per = 4 if tier == 'quick' else 30
  req = {'C03.fit-returns.' + e: per for e in E.ALL}
  req['C03.fit-returns.Covariance'] = 3 if tier == 'quick' else 12
  req.update(_req(n))
  return req


def _req(n):
  return {'C03.fit-returns': n, 'C03.returns-self': n, 'C03.components': n,
          'C03.rows': n, 'C03.M-psd': n, 'C03.n_features_in_': n,
          'C03.transform-shape': n, 'C03.scml-lowrank': 5, 'G.C03.fit': n,
          'C03.refit.n_features_in_': n // 4}


def run_case(spec, j):
  name = spec['est']
  ds = common.dataset(spec['ds'])
  d = ds['d']
  f = common.build(spec, ds)
  if spec.get('contradict'):
    r = rng_for('c3n-t', spec['ds']['seed'], spec['seed'])
    X_, y_ = np.asarray(ds['X'], dtype=float), np.asarray(ds['y'])
    base = []
    while len(base) < spec['contradict']:
      a = int(r.randint(len(y_)))
      same = np.flatnonzero((y_ == y_[a]) & (np.arange(len(y_)) != a))
      other = np.flatnonzero(y_ != y_[a])
      b, c = int(r.choice(same)), int(r.choice(other))
      if np.any(X_[a] != X_[b]) and np.any(X_[a] != X_[c]) and \
              np.any(X_[b] != X_[c]):
        base.append((a, b, c))
    base = np.array(base)
    T_ = np.vstack([base, base[:, [0, 2, 1]]])
    f.args = (X_[T_[r.permutation(len(T_))]],)
    f.kwargs = {}
    j.count('contradictory-triplet-sets')
  _captured['scml'].clear()
  api.set_judge(j, well_formed=True)
  det = {'est': name, 'params': spec.get('params'), 'd': d, 'n': ds['n'],
         'variant': ds['variant']}
  with Quiet() as q:
    try:
      ret = f.fit()
    except Exception as e:
      api.set_well_formed(False)
      if name in ('SDML', 'SDML_Supervised') and \
              isinstance(e, RuntimeError) and 'graphical' in str(e):
        # SDML's documented failure path (C13: "when the solver cannot
        # produce a finite SPD matrix fit raises RuntimeError"); on
        # ill-conditioned but well-formed input this is C13's business
        j.skip('C03.fit-returns', 'sdml-solver-failure-(C13-clause)')
        return
      j.violated('C03.fit-returns', dict(det, raised=repr(e)[:300]),
                 mechanism='fit-raised-' + type(e).__name__)
      return
  api.set_well_formed(False)
  j.ok('C03.fit-returns')
  j.ok('C03.fit-returns.' + name)
  est = f.est
  j.check('C03.returns-self', ret is est, det)
  L = getattr(est, 'components_', None)
  good = (isinstance(L, np.ndarray) and L.ndim == 2 and
          L.dtype.kind == 'f' and np.all(np.isfinite(L)) and
          L.shape[1] == d)
  j.check('C03.components', good,
          dict(det, type=type(L).__name__,
               dtype=str(getattr(L, 'dtype', None)),
               shape=getattr(L, 'shape', None),
               finite=bool(np.all(np.isfinite(L))) if isinstance(L, np.ndarray)
               and L.dtype.kind in 'fc' else None))
  if not good:
    return
  k = L.shape[0]
  nc = (spec.get('params') or {}).get('n_components')
  lowrank_w = [w for w in q.w if 'nonzero weight is less' in str(w.message)]
  if name in ('SCML', 'SCML_Supervised'):
    if not _captured['scml']:
      j.skip('C03.scml-lowrank', 'weights-not-captured')
    else:
      basis, w, shape = _captured['scml'][-1]
      active = int((w > 0).sum())
      if active < d:
        j.check('C03.scml-lowrank', k == active and len(lowrank_w) == 1,
                dict(det, k=k, active=active, warnings=len(lowrank_w)))
      else:
        j.check('C03.scml-lowrank', k == d and len(lowrank_w) == 0,
                dict(det, k=k, active=active, warnings=len(lowrank_w)))
    j.check('C03.rows', k <= d, dict(det, k=k))
  elif nc is not None:
    j.check('C03.rows', k == nc, dict(det, k=k, n_components=nc))
  else:
    j.check('C03.rows', k == d, dict(det, k=k))
  with Quiet():
    M = est.get_mahalanobis_matrix()
    T = est.transform(np.asarray(ds['X']))
  nM = max(np.abs(M).max(), 1e-300)
  lam = np.linalg.eigvalsh((M + M.T) / 2)
  j.check('C03.M-psd', M.shape == (d, d) and
          np.abs(M - M.T).max() <= 4 * EPS * nM and
          lam.min() >= -8 * EPS * nM * d,
          dict(det, lambda_min=lam.min(), asym=np.abs(M - M.T).max()))
  j.check('C03.n_features_in_', getattr(est, 'n_features_in_', None) == d,
          dict(det, n_features_in_=getattr(est, 'n_features_in_', None)))
  j.check('C03.transform-shape', T.shape == (ds['n'], k),
          dict(det, shape=T.shape, k=k))
  # "...of the points seen by the *last* fit": refit the same object on
  # data of another dimensionality
  if spec['ds']['seed'] % 2 == 0:
    d2 = d + 1 if d < 8 else d - 1
    ds2spec = dict(spec['ds'], d=d2, seed=spec['ds']['seed'] + 1)
    p2 = dict(spec.get('params') or {})
    if p2.get('n_components') is not None:
      p2['n_components'] = min(p2['n_components'], d2)
    if p2.get('k') is not None and name == 'LFDA':
      p2['k'] = max(1, min(p2['k'], d2 + 2))
    if p2.get('n_basis') is not None:
      p2['n_basis'] = int(round(p2['n_basis'] / d * d2))
    spec2 = dict(spec, ds=ds2spec, params=p2)
    try:
      ds2 = common.dataset(ds2spec)
      f2 = common.build(spec2, ds2)
      est.set_params(**f2.est.get_params(deep=False))
      api.set_judge(j, well_formed=True)
      with Quiet():
        est.fit(*f2.args, **f2.kwargs)
      api.set_well_formed(False)
      j.check('C03.refit.n_features_in_',
              est.n_features_in_ == d2 and est.components_.shape[1] == d2,
              dict(det, d_first=d, d_second=d2,
                   n_features_in_=est.n_features_in_,
                   shape=est.components_.shape))
    except Exception as e:
      api.set_well_formed(False)
      if name in ('SDML', 'SDML_Supervised') and isinstance(e, RuntimeError):
        j.skip('C03.refit', 'sdml-solver-failure-(C13-clause)')
      else:
        j.violated('C03.refit.n_features_in_',
                   dict(det, d_second=d2, raised=repr(e)[:300]),
                   mechanism='refit-raised-' + type(e).__name__)
  if np.any(L != 0):
    j.distinct(name, repr(sorted((spec.get('params') or {}).items(),
                                 key=repr)), spec['ds']['seed'])
  if j.sample is None:
    j.sample = dict(det, components_shape=L.shape, lambda_min_M=lam.min(),
                    n_features_in_=est.n_features_in_,
                    warnings=[str(w.message)[:80] for w in q.w][:3])


LEVEL_TEXT = ('Exploration by runtime monitoring over the documented option '
              'product: at the return event of the real fit of each of the '
              '17 estimators the returned object, components_ (dtype, '
              'dimensionality, shape, finiteness), the induced M (symmetric '
              'PSD), n_features_in_ and the transform output shape are '
              'judged; for SCML the low-rank warning is cross-checked against '
              'the weights captured from the components builder. Thorough '
              'tier enumerates the whole product for each dataset; held on '
              'the executions in the evidence file.')
LEVEL_NOTE = ('Trusts the workload generator to produce well-formed input in '
              'the sense of the quantifier (it is seeded and reproducible '
              'from the case spec); a fit that raises on such input is '
              'reported as a violation, not skipped.')
TECHNIQUE = ('runtime monitoring: postcondition oracle at the fit return '
             'event + method wrapper capturing SCML weights, over an '
             'enumerated configuration product and hostile datasets')
