"""C17 -- fitting is deterministic, side-effect free and history independent."""
import os
import pickle
import subprocess
import sys
import tempfile

import numpy as np
from sklearn.base import clone

from .. import common, estimators as E
from ..core import rng_for, Quiet, fingerprint, fp_map, fp_diff
from ..instrument import api
from ..workloads import configs

ID = 'C17'
LEVEL = 'exploration'
RULE = ('cases = random call histories (length 6..14) per estimator (all 17) '
        'over {fit(data_i) on 3 datasets of differing n and d, set_params, '
        'set_threshold, calibrate_threshold, transform, pair_distance, '
        'predict, score, get_metric, get_mahalanobis_matrix (+ mutation of '
        'the returned matrix), clone, pickle round trip}, integer '
        'random_state, arrays passed as init / prior / basis / bounds / '
        'weights / preprocessor, global numpy RNG reseeded before every fit. '
        'Reference model (history + executable model): after every '
        'state-changing operation a fresh clone that replays only the last '
        'fit and the threshold operations since must agree with the object '
        '(M, threshold_, bounds_, n_features_in_, probe distances). Online '
        'half of the histories pass every caller-owned buffer '
        'write-protected (a write raises even if it is undone later). Online '
        'monitors on every API call compare the bytes of all arguments, of '
        'get_params() values and (query methods) of vars(estimator) before '
        'and after. Handed-out metric functions and matrices are re-queried '
        'after later refits. At the end of a history the last fit is also '
        'replayed in a pristine interpreter (C17.fresh-process), which shares '
        'no module-level, class-level or memoised state with the process '
        'that ran the history. An evaluation is one model comparison or one '
        'online fingerprint comparison. distinct_nontrivial counts distinct '
        '(estimator, history) with at least two fits on different data.')
ASSUMPTIONS = ['model equality is judged at 1e-9 relative on M and probe '
               'distances (bitwise agreement is counted and reported); LFDA '
               'with n_components < d is documented as not bitwise '
               'reproducible (ARPACK start vector)']
TIMEOUT = {'quick': 1800, 'thorough': 5 * 3600}
CASE_TIMEOUT = {'quick': 600, 'thorough': 1800}
setup_worker = common.setup_worker


def cases(tier, seed):
  out = []
  q = tier == 'quick'
  nh = 6 if q else 60
  for name in E.ALL:
    for h in range(nh):
      r = rng_for('c17', seed, name, h)
      out.append({'est': name, 'hseed': int(r.randint(2**31 - 1)),
                  'length': int(r.randint(6, 15)),
                  'prep': bool(h % 3 == 2), 'variant': h,
                  'ro': bool(h % 2 == 1),
                  'fresh': bool(not q or h % 3 != 1)})
  # datasets large and wide enough for scikit-learn's PCA to pick its
  # randomized solver (the only one that draws random numbers): more than 500
  # samples, fewer than 10 x features, few components
  for name in ('NCA', 'MLKR', 'LMNN'):
    for init in (['pca', 'auto'] if q else ['pca', 'auto', 'pca', 'auto']):
      r = rng_for('c17-large', seed, name, init, len(out))
      out.append({'kind': 'large-pca', 'est': name, 'init': init,
                  'hseed': int(r.randint(2**31 - 1))})
  return _with_repotests(out, tier)


def _with_repotests(out, tier):
  if tier != 'quick':
    from .. import repotests
    out.extend(repotests.specs())
  return out


def required(tier):
  q = tier == 'quick'
  n = 40 if q else 350
  return {'C17.history-independent': 3 * n, 'C17.repeat-fit': n // 3,
          'C17.handed-out-metric-stable': n, 'C17.handed-out-matrix-stable': n // 2,
          'C17.returned-matrix-is-a-copy': n // 2, 'C17.pickle': n // 3,
          'G.C17.args': 20 * n, 'G.C17.params': 20 * n, 'G.C17.state': 10 * n,
          'C17.no-write-into-arguments': n // 2,
          'C17.fresh-process': n // 2}


def _probe(est, Q):
  with api.paused(), Quiet():
    return est.pair_distance(Q)


def _compare(j, mon, est, twin, Q, det):
  """est and twin denote the same fitted model?"""
  same = True
  why = {}
  for attr in ('components_', 'threshold_', 'bounds_', 'n_features_in_'):
    if hasattr(est, attr) != hasattr(twin, attr):
      same = False
      why[attr] = 'present in only one'
  if not same:
    j.violated(mon, dict(det, why=why))
    return False
  if hasattr(est, 'n_features_in_') and \
          est.n_features_in_ != twin.n_features_in_:
    same = False
    why['n_features_in_'] = (est.n_features_in_, twin.n_features_in_)
  for attr in ('threshold_', 'bounds_'):
    if hasattr(est, attr):
      a = np.asarray(getattr(est, attr), dtype=float)
      b = np.asarray(getattr(twin, attr), dtype=float)
      if a.shape != b.shape or not np.allclose(a, b, rtol=1e-9, atol=0,
                                               equal_nan=True):
        same = False
        why[attr] = (a, b)
  La, Lb = est.components_, twin.components_
  if La.shape != Lb.shape:
    same = False
    why['components_.shape'] = (La.shape, Lb.shape)
  else:
    Ma, Mb = La.T.dot(La), Lb.T.dot(Lb)
    sc = max(np.abs(Mb).max(), 1e-300)
    err = np.abs(Ma - Mb).max() / sc if Ma.size else 0.0
    j.margin(mon + '(M)', err / 1e-9)
    if not err <= 1e-9:
      same = False
      why['M'] = err
    da, db = _probe(est, Q), _probe(twin, Q)
    if not np.allclose(da, db, rtol=1e-8, atol=1e-9 * np.sqrt(sc) *
                       np.abs(Q).max(), equal_nan=True):
      same = False
      why['probe'] = (da[:3], db[:3])
    j.count('bitwise-equal' if np.array_equal(La, Lb) else 'not-bitwise')
  j.check(mon, same, dict(det, why=why))
  return same


def _fresh_process_twin(proto, args, kwargs, since_fit, np_seed):
  """The last fit replayed in a pristine interpreter (nothing outside the
  pickled arguments is shared with this process).  -> (estimator | None,
  error text | None)"""
  tmp = tempfile.mkdtemp(prefix='c17-fresh-')
  try:
    inp, out = os.path.join(tmp, 'in.pkl'), os.path.join(tmp, 'out.pkl')
    with open(inp, 'wb') as f:
      pickle.dump({'est': proto, 'args': args, 'kwargs': kwargs,
                   'since_fit': since_fit, 'np_seed': np_seed}, f)
    root = os.path.dirname(os.path.dirname(os.path.dirname(
        os.path.abspath(__file__))))
    r = subprocess.run([sys.executable, '-B', '-m', 'mlverif.fresh_fit',
                        inp, out], cwd=root, capture_output=True, text=True,
                       timeout=900)
    if r.returncode != 0 or not os.path.exists(out):
      raise RuntimeError('fresh_fit failed: %s' % r.stderr[-500:])
    with open(out, 'rb') as f:
      res = pickle.load(f)
    return res.get('est'), res.get('error')
  finally:
    import shutil
    shutil.rmtree(tmp, ignore_errors=True)


def _large_pca_case(spec, j):
  name = spec['est']
  rng = rng_for('c17-large-run', spec['hseed'])
  n, d, c = int(rng.randint(510, 560)), int(rng.randint(56, 70)), 4
  y = rng.randint(0, c, size=n)
  X = rng.randn(n, d) * np.exp(rng.uniform(-1, 1, size=d)) + \
      rng.randn(c, d)[y] * 2.0
  t = X[:, 0] + 0.1 * rng.randn(n)
  params = dict(init=spec['init'], n_components=int(rng.randint(4, 7)),
                max_iter=2, random_state=int(rng.randint(1000)))
  if name == 'LMNN':
    params.update(n_neighbors=2, learn_rate=1e-6)
  args = (X, t) if name == 'MLKR' else (X, y)
  det = {'est': name, 'init': spec['init'], 'shape': X.shape,
         'n_components': params['n_components']}
  est = E.cls(name)(**params)
  Q = X[rng.randint(0, n, size=(6, 2))]
  api.set_judge(j)
  try:
    with Quiet():
      np.random.seed(int(rng.randint(2**31 - 1)))
      est.fit(*args)
      import copy
      first = copy.deepcopy(est)
      np.random.seed(int(rng.randint(2**31 - 1)))
      est.fit(*args)                      # repeat on the same object
      c2 = clone(est)
      np.random.seed(int(rng.randint(2**31 - 1)))
      c2.fit(*args)                       # fresh clone
  except Exception as e:
    j.violated('C17.history-runs', dict(det, raised=repr(e)[:300]),
               mechanism='history-raised-' + type(e).__name__)
    return
  _compare(j, 'C17.repeat-fit', est, first, Q, det)
  _compare(j, 'C17.history-independent', est, c2, Q, det)
  with api.paused():
    tw, err = _fresh_process_twin(clone(est), args, {}, [],
                                  int(rng.randint(2**31 - 1)))
  if tw is None:
    j.violated('C17.fresh-process', dict(det, fresh_process_raised=err),
               mechanism='fresh-process-fit-raised')
  else:
    _compare(j, 'C17.fresh-process', est, tw, Q, det)
  j.distinct(name, 'large-pca', spec['hseed'])


def run_case(spec, j):
  if spec.get('kind') == 'repotests':
    from .. import repotests
    return repotests.run(spec, j)
  if spec.get('kind') == 'large-pca':
    return _large_pca_case(spec, j)
  name = spec['est']
  rng = rng_for('c17run', spec['hseed'])
  kind = E.KIND[name]
  # three datasets: two dimensionalities, differing sizes
  d1 = int(rng.randint(2, 5))
  d2 = d1 + int(rng.choice([-1, 1, 2])) if d1 > 2 else d1 + 1
  dims = [d1, d2, d1]
  fits = []
  for i, d in enumerate(dims):
    dss = {'seed': int(rng.randint(2**31 - 1)), 'd': int(d),
           'classes': int(rng.randint(2, 4)), 'variant': 'plain',
           'nmax': int(rng.choice([30, 45, 60]))}
    ds = common.dataset(dss)
    if i == 2 and spec['hseed'] % 2 == 0:
      # same shape (n, d) and labels as dataset 0, other values: a memo keyed
      # on shapes is stale exactly here
      ds0 = fits[0]['ds']
      ds = dict(ds0)
      X0 = np.asarray(ds0['X'], dtype=float)
      ds['X'] = X0 * rng.uniform(0.5, 2.0, size=X0.shape[1]) + \
          0.7 * rng.randn(*X0.shape)
      ds['t'] = np.asarray(ds0['t']) + 0.3 * rng.randn(len(X0))
    cfgs = [c for c in configs.light(name, ds['d'], ds['classes'])
            if not c.get('diagonal')]   # (may legitimately raise: C14)
    cfg = dict(cfgs[spec['variant'] % len(cfgs)])
    if spec['variant'] % 2 == 1:
      # array-valued options where the estimator has them
      if name in ('LMNN', 'NCA', 'MLKR'):
        cfg['init'] = '@randn'
        cfg.pop('n_components', None)
      elif name in ('ITML', 'ITML_Supervised', 'LSML', 'LSML_Supervised',
                    'SDML', 'SDML_Supervised'):
        cfg['prior'] = '@spd'
      elif name in ('MMC', 'MMC_Supervised'):
        cfg = {'init': '@spd'}
      elif name in ('SCML',):
        cfg = {'basis': '@basis'}
    # (random_state = 0 is an integer seed like any other - and the one that
    # is falsy: one case in five uses it)
    s = {'est': name, 'params': cfg, 'ds': dss,
         'seed': 0 if spec['hseed'] % 5 == 0 else spec['hseed'] % 997}
    f = common.build(s, ds, preprocessor='array' if spec['prep'] else None)
    kwargs = {}
    if name in ('ITML', 'ITML_Supervised') and spec['variant'] % 2 == 0:
      # (a zero lower bound is replaced by 1e-9 inside fit: the caller's
      # array must not see that)
      kwargs['bounds'] = np.array([0.0 if i == 1 else 0.5, 3.0]) * ds['d']
    if name == 'LSML' and spec['variant'] % 2 == 0:
      kwargs['weights'] = rng.uniform(0.5, 2.0, size=len(f.args[0]))
    params_i = f.est.get_params(deep=False)
    args_i = f.args
    if spec.get('ro'):
      # M-RO: every caller-owned buffer is write-protected, so that even a
      # write that is undone later (invisible to fingerprints) raises
      def ro(a):
        if isinstance(a, np.ndarray):
          a = np.array(a, copy=True)
          a.setflags(write=False)
        return a
      args_i = tuple(ro(a) for a in args_i)
      kwargs = {k_: ro(v) for k_, v in kwargs.items()}
      params_i = {k_: ro(v) for k_, v in params_i.items()}
    fits.append({'ds': ds, 'params': params_i,
                 'args': args_i, 'kwargs': kwargs, 'X': np.asarray(ds['X'])})
  est = E.cls(name)(**fits[0]['params'])
  det = {'est': name, 'hseed': spec['hseed'], 'prep': spec['prep']}
  overrides = {}
  ops = []
  cur = None            # index of the dataset of the last fit
  since_fit = []        # threshold operations since the last fit
  handed_fun = []       # (fun, u, v, value, fit_serial)
  handed_M = []
  serial = 0
  fitted_sets = set()
  api.set_judge(j)

  def args_for(i):
    return fits[i]['args'], fits[i]['kwargs']

  def qdata(i, size, n):
    X = fits[i]['X']
    idx = rng.randint(0, len(X), size=(n, size) if size > 1 else n)
    return idx if spec['prep'] else X[idx]

  proto = {'est': None}   # unfitted clone taken when the last fit was made

  def replay_twin():
    tw = clone(proto['est'])
    a, k = args_for(cur)
    st = np.random.get_state()
    np.random.seed(int(rng.randint(2**31 - 1)))
    with api.paused(), Quiet():
      tw.fit(*a, **k)
      for op, arg in since_fit:
        if op == 'set_threshold':
          tw.set_threshold(arg)
        else:
          tw.calibrate_threshold(*arg[0], **arg[1])
    np.random.set_state(st)
    return tw

  def check_handed():
    for fun, u, v, val, ser in handed_fun:
      with Quiet():
        now = fun(u, v)
      j.check('C17.handed-out-metric-stable',
              now == val or (now != now and val != val),
              dict(det, before=val, after=now, ops=ops[-6:]))
    for M, Mcopy in handed_M:
      j.check('C17.handed-out-matrix-stable', np.array_equal(M, Mcopy),
              dict(det, ops=ops[-6:]))

  def fresh_check():
    # second reference model: the last fit replayed in a pristine process
    a, k = args_for(cur)
    with api.paused():
      tw, err = _fresh_process_twin(clone(proto['est']), a, k,
                                    list(since_fit),
                                    int(rng.randint(2**31 - 1)))
    if tw is None:
      if name in ('SDML', 'SDML_Supervised') and 'RuntimeError' in err:
        j.skip('C17.fresh-process', 'sdml-solver-failure')
      else:
        j.violated('C17.fresh-process',
                   dict(det, ops=ops[-8:], fresh_process_raised=err),
                   mechanism='fresh-process-fit-raised')
    else:
      Q = fits[cur]['X'][rng.randint(0, len(fits[cur]['X']), size=(6, 2))]
      _compare(j, 'C17.fresh-process', est, tw, Q, dict(det, ops=ops[-8:]))

  length = spec['length']
  # every history contains a direct transition between the two datasets of
  # equal dimensionality (a stale cache keyed on shapes survives only there)
  # and one to the dataset of another dimensionality
  plan = [('fit', 0), None, ('fit', 2), None, ('fit', 1)] + \
      [None] * max(0, length - 5)
  for step in range(length):
    fitted = cur is not None
    forced = None
    if isinstance(plan[step], tuple) or not fitted:
      op = 'fit'
      forced = plan[step][1] if isinstance(plan[step], tuple) else 0
    elif step == 1 and spec['variant'] % 2 == 1:
      # a pickle round trip between two fits (parameters come back as equal
      # but different objects)
      op = 'pickle'
    else:
      choices = ['fit', 'fit', 'transform', 'pair_distance', 'get_metric',
                 'get_M', 'set_params', 'clone', 'pickle', 'repeat-fit']
      if kind == 'pairs':
        choices += ['predict', 'score', 'set_threshold',
                    'calibrate_threshold']
      elif kind in ('triplets', 'quadruplets'):
        choices += ['predict', 'score']
      op = choices[int(rng.randint(len(choices)))]
    ops.append(op)
    try:
      with Quiet():
        if op in ('fit', 'repeat-fit'):
          i = cur if op == 'repeat-fit' else (
              forced if forced is not None else int(rng.randint(3)))
          est.set_params(**fits[i]['params'])
          ok_over = {k: v for k, v in overrides.items()
                     if k in est.get_params(deep=False)}
          est.set_params(**ok_over)
          a, k = args_for(i)
          np.random.seed(int(rng.randint(2**31 - 1)))
          proto['est'] = clone(est)
          api.set_judge(j, well_formed=True)
          est.fit(*a, **k)
          api.set_well_formed(False)
          prev = cur
          cur = i
          since_fit = []
          serial += 1
          fitted_sets.add(i)
          Q = fits[cur]['X'][rng.randint(0, len(fits[cur]['X']),
                                         size=(6, 2))]
          Qarg = Q
          if spec['prep']:
            # probe through formed pairs: a preprocessor is not consulted
            Qarg = Q
          # no fitted array may share memory with an argument or an
          # array-valued hyper-parameter (the caller may change those later);
          # preprocessor_ is a data source, not part of the model
          owned = [(('arg%d' % ai), v) for ai, v in enumerate(a)] + \
              list(k.items()) + [(kk, vv) for kk, vv in
                                 est.get_params(deep=False).items()
                                 if kk != 'preprocessor']
          owned = [(kk, vv) for kk, vv in owned if isinstance(vv, np.ndarray)]
          aliased = []
          for attr, fv in vars(est).items():
            if attr.startswith('_') or attr == 'preprocessor_' or \
                    not attr.endswith('_') or not isinstance(fv, np.ndarray):
              continue
            for kk, vv in owned:
              if np.shares_memory(fv, vv):
                aliased.append((attr, kk))
          j.check('C17.fitted-state-not-aliased', not aliased,
                  dict(det, aliased=aliased))
          tw = replay_twin()
          mon = 'C17.repeat-fit' if (op == 'repeat-fit' or prev == i) \
              else 'C17.history-independent'
          _compare(j, mon, est, tw, Qarg, dict(det, ops=ops[-8:]))
          check_handed()
          if spec.get('fresh') and forced == 2 and spec['hseed'] % 2 == 0:
            # just refitted on other values of the same shape and labels
            fresh_check()
        elif op == 'transform':
          est.transform(qdata(cur, 1, 7))
        elif op == 'pair_distance':
          est.pair_distance(qdata(cur, 2, 7))
        elif op == 'predict':
          est.predict(qdata(cur, E.TUPLE_SIZE[kind], 7))
        elif op == 'score':
          T = qdata(cur, E.TUPLE_SIZE[kind], 9)
          if kind == 'pairs':
            est.score(T, np.resize(np.array([1, -1]), 9))
          else:
            est.score(T)
        elif op == 'get_metric':
          fun = est.get_metric()
          X = fits[cur]['X'].astype(float)
          u, v = X[int(rng.randint(len(X)))], X[int(rng.randint(len(X)))]
          handed_fun.append((fun, u, v, fun(u, v), serial))
        elif op == 'get_M':
          M = est.get_mahalanobis_matrix()
          handed_M.append((M, M.copy()))
          M2 = est.get_mahalanobis_matrix()
          M2[:] = 0
          M3 = est.get_mahalanobis_matrix()
          j.check('C17.returned-matrix-is-a-copy', np.array_equal(M3, M),
                  dict(det, ops=ops[-4:]))
        elif op == 'set_params':
          cand = [k for k in ('max_iter', 'tol', 'verbose')
                  if k in est.get_params(deep=False)]
          if cand:
            k = cand[int(rng.randint(len(cand)))]
            if k == 'max_iter':
              v = int(est.get_params()[k]) + int(rng.randint(1, 4))
            elif k == 'tol':
              v = 1e-4 if est.get_params()[k] != 1e-4 else 1e-3
            else:
              v = False
            overrides[k] = v
            est.set_params(**{k: v})
            # fitted state must not change by set_params alone
        elif op == 'set_threshold':
          t = float(rng.uniform(0.1, 3.0))
          est.set_threshold(t)
          since_fit.append(('set_threshold', t))
          tw = replay_twin()
          _compare(j, 'C17.history-independent', est, tw,
                   fits[cur]['X'][rng.randint(0, len(fits[cur]['X']),
                                              size=(6, 2))],
                   dict(det, ops=ops[-8:]))
        elif op == 'calibrate_threshold':
          T = qdata(cur, 2, 12)
          yv = np.resize(np.array([1, -1, -1]), 12)
          strat = ['accuracy', 'f_beta', 'max_tpr'][int(rng.randint(3))]
          kw = {'strategy': strat}
          if strat == 'max_tpr':
            kw['min_rate'] = 0.5
          est.calibrate_threshold(T, yv, **kw)
          since_fit.append(('calibrate', ((T, yv), kw)))
          tw = replay_twin()
          _compare(j, 'C17.history-independent', est, tw,
                   fits[cur]['X'][rng.randint(0, len(fits[cur]['X']),
                                              size=(6, 2))],
                   dict(det, ops=ops[-8:]))
        elif op == 'clone':
          c2 = clone(est)
          same = fp_diff(fp_map(est.get_params(deep=False)),
                         fp_map(c2.get_params(deep=False)))
          j.check('C17.clone-params', not same and
                  not hasattr(c2, 'components_'), dict(det, changed=same))
        elif op == 'pickle':
          Q = fits[cur]['X'][rng.randint(0, len(fits[cur]['X']),
                                         size=(6, 2))]
          before = _probe(est, Q)
          e2 = pickle.loads(pickle.dumps(est))
          after = _probe(e2, Q)
          changed = fp_diff(fp_map(api._fitted_state(est)),
                           fp_map(api._fitted_state(e2)))
          j.check('C17.pickle', np.array_equal(before, after, equal_nan=True)
                  and not changed,
                  dict(det, ops=ops[-4:], changed=changed))
          est = e2
    except Exception as e:
      api.set_well_formed(False)
      if name in ('SDML', 'SDML_Supervised') and isinstance(e, RuntimeError):
        j.skip('C17', 'sdml-solver-failure')
        return
      if 'read-only' in str(e):
        j.violated('C17.no-write-into-arguments',
                   dict(det, op=op, ops=ops[-8:], raised=repr(e)[:300]),
                   mechanism='writes-into-read-only-argument')
        return
      j.violated('C17.history-runs',
                 dict(det, op=op, ops=ops[-8:], raised=repr(e)[:300]),
                 mechanism='history-raised-' + type(e).__name__)
      return
  check_handed()
  if spec.get('fresh') and cur is not None:
    fresh_check()
  if spec.get('ro'):
    j.ok('C17.no-write-into-arguments')
  if len(fitted_sets) >= 2:
    j.distinct(name, spec['hseed'])
  if j.sample is None:
    j.sample = dict(det, history=ops, dims=dims)


LEVEL_TEXT = ('Exploration by runtime monitoring of random call histories '
              'against an executable reference model: after every '
              'state-changing operation a fresh clone replaying only the '
              'last fit (and later threshold operations) must denote the '
              'same model as the object that went through the whole '
              'history, including earlier fits on data of another '
              'dimensionality; online monitors on every public call compare '
              'the bytes of all arguments, hyper-parameters and (for query '
              'methods) fitted state before and after; handed-out metric '
              'functions and matrices are re-queried after later refits; '
              'the final model is also compared with the same fit made in a '
              'pristine interpreter (state kept outside the object). '
              'Held on the histories in the evidence file.')
LEVEL_NOTE = ('Histories are sequential (the library has no concurrency); '
              'the global numpy RNG is reseeded differently before the fit '
              'of the object and of its twin so that any use of global '
              'randomness shows up as a difference.')
TECHNIQUE = ('runtime monitoring: history + executable reference model '
             '(fresh-clone twin in process + fresh-interpreter twin), online argument/parameter/state '
             'fingerprint invariants on wrapped public methods')
