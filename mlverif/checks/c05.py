"""C05 -- indices + preprocessor are interchangeable with formed data."""
import numpy as np

from .. import common, estimators as E
from ..core import rng_for, Quiet
from ..instrument import api
from ..instrument.prep import MonitoredPreprocessor

ID = 'C05'
LEVEL = 'exploration'
RULE = ('cases = estimator (all 17) x preprocessor kind {ndarray, nested '
        'list, monitored callable} x index dtype {int8..int64, uint8, uint16} '
        'x seeded dataset. Twin execution: estimator A receives indicators '
        '(permuted order for fit, with repeats for queries), estimator B the '
        'formed arrays; fitted state and the output of every data-taking '
        'method are compared exactly; the callable preprocessor logs every '
        'consultation; failing preprocessors (5 exception types, out-of-range '
        'index into an array preprocessor) are injected into fit and into '
        'every query method; half of the preprocessors hold extra rows that '
        'no index refers to (NaN, infinities, extreme values). An evaluation is one exact comparison or one '
        'judged exception type. distinct_nontrivial counts distinct '
        '(estimator, preprocessor kind, index dtype, dataset, method).')
ASSUMPTIONS = ['equal formed arrays give bitwise equal results (observed; '
               'the same arithmetic is applied to the same bits)']
TIMEOUT = {'quick': 900, 'thorough': 3 * 3600}
setup_worker = common.setup_worker
DTYPES = ['int64', 'int32', 'int16', 'int8', 'uint8', 'uint16']
KINDS = ['array', 'list', 'callable', 'records', 'callable-list']


class CustomError(Exception):
  pass


EXCS = [KeyError('k'), IndexError('i'), ZeroDivisionError('z'),
        RuntimeError('r'), CustomError('c')]


def cases(tier, seed):
  out = []
  nrep = 1 if tier == 'quick' else 30
  for ei, name in enumerate(E.ALL):
    for ki, kind in enumerate(KINDS):
      for r in range(nrep):
        dss = common.ds_specs(seed, 'C05%s%d' % (name, ki), nrep,
                              dmax=4 if tier == 'quick' else 6)
        dts = DTYPES if tier != 'quick' else \
            [DTYPES[(ei + ki) % 6], DTYPES[(ei + ki + 3) % 6]]
        for dt in dts:
          out.append({'est': name, 'params': {}, 'ds': dict(dss[r], nmax=100),
                      'seed': seed % 1000, 'kind': kind, 'dtype': dt,
                      # rows that no index refers to may hold anything
                      'junk': bool((ei + ki + r + len(out)) % 2)})
  # one-feature data is as legal as any (formed points of shape (n, 1) look
  # like a column of indicators)
  for ei, name in enumerate(E.ALL):
    for ki, kind in enumerate(KINDS):
      if tier == 'quick' and (ei + ki) % 3:
        continue
      r = rng_for('c05-d1', seed, name, kind)
      out.append({'est': name, 'params': {},
                  'ds': {'seed': int(r.randint(2**31 - 1)), 'd': 1,
                         'classes': 2, 'variant': 'plain', 'nmax': 40},
                  'seed': seed % 1000, 'kind': kind,
                  'dtype': DTYPES[(ei + ki) % 6], 'junk': False})
  return out


def required(tier):
  n = 40 if tier == 'quick' else 400
  return {'C05.fit-state': n, 'C05.transform': n, 'C05.pair_distance': n,
          'C05.pair_score': n, 'C05.score_pairs': n,
          'C05.predict': n // 4, 'C05.decision_function': n // 4,
          'C05.score': n // 4, 'C05.calibrate_threshold': n // 8,
          'C05.not-consulted-on-formed': n // 2,
          'C05.formed-integers': n,
          'C05.consulted-on-indices': n // 2,
          'C05.error-surfaces.fit': n // 2, 'C05.error-surfaces.query': n,
          'C05.error-surfaces.out-of-range': n // 4}


def _mkprep(kind, X):
  if kind == 'array':
    return X, None
  if kind == 'list':
    return X.tolist(), None
  if kind == 'records':
    # a callable over Python records: what it returns for a batch of
    # indicators has the dtype numpy infers for *those* records (integers for
    # whole-number points, floats otherwise)
    rows = [[int(v) if float(v).is_integer() else float(v) for v in r]
            for r in np.asarray(X).tolist()]
    return (lambda idx: np.array([rows[int(i)] for i in np.ravel(idx)])), None
  mp = MonitoredPreprocessor(X, as_list=(kind == 'callable-list'))
  return mp, mp


def run_case(spec, j):
  name = spec['est']
  ds = common.dataset(spec['ds'])
  X = np.asarray(ds['X'])
  n, d = X.shape
  dt = np.dtype(spec['dtype'])
  if n - 1 > np.iinfo(dt).max:
    dt = np.dtype('int16')
  rng = rng_for('c5', spec['ds']['seed'], name)
  kindE = E.KIND[name]
  if spec['kind'] == 'records':
    X = np.array(X, dtype=float, copy=True)
    n_int = max(3, n // 3)
    X[:n_int] = np.round(X[:n_int])
  Xp = X
  if spec.get('junk') and spec['kind'] != 'records':
    # the preprocessor's source has rows that are never referenced: NaN,
    # infinities, huge values (the formed data is the same finite data)
    junk = np.array([[np.nan] * d, [np.inf] * d, [-np.inf] * d,
                     [1e300] * d])
    if X.dtype.kind != 'f':
      junk = np.array([[np.iinfo(X.dtype).max] * d,
                       [np.iinfo(X.dtype).min] * d])
    Xp = np.vstack([X, junk.astype(X.dtype)])
  prep, mp = _mkprep(spec['kind'], Xp)
  # ----- build twins with identical parameters
  if spec['kind'] == 'records':
    ds = dict(ds, X=X)
  fb = common.build(spec, ds)                       # B: formed data
  params = dict(fb.meta['params'])
  A = E.cls(name)(**dict(params, preprocessor=prep))
  B = fb.est
  # fit arguments
  if kindE in ('unsup', 'points', 'regress', 'chunks'):
    perm = rng.permutation(n).astype(dt)
    second = {'unsup': None, 'points': ds['y'], 'regress': ds['t'],
              'chunks': fb.meta.get('chunks')}[kindE]
    argsA = (perm,) if second is None else (perm, second[perm])
    argsB = (X[perm],) if second is None else (X[perm], second[perm])
  else:
    idx = fb.meta['tuple_idx'].astype(dt)
    lab = fb.meta['tuple_labels']
    argsA = (idx,) if lab is None else (idx, lab)
    argsB = (X[idx],) if lab is None else (X[idx], lab)
  det = {'est': name, 'kind': spec['kind'], 'dtype': str(dt), 'n': n, 'd': d}
  api.set_judge(j, well_formed=True)
  with Quiet():
    try:
      B.fit(*argsB)
    except Exception as e:
      # whether fit may raise on this formed data is C03's question
      api.set_well_formed(False)
      j.skip('fit', 'raised-%s' % type(e).__name__)
      j.note('fit raised %r %s' % (e, spec))
      return
    try:
      A.fit(*argsA)
    except Exception as e:
      # ... but the route through indices must not differ from it
      api.set_well_formed(False)
      j.violated('C05.fit-state',
                 dict(det, why='fit on formed data returned, fit on '
                      'indicators + preprocessor raised', raised=repr(e)[:300],
                      junk_rows=bool(spec.get('junk'))),
                 mechanism='indices-route-raised-' + type(e).__name__)
      return
  api.set_well_formed(False)
  if mp is not None:
    j.check('C05.consulted-on-indices', mp.n_calls >= 1, det)
  same = True
  diffs = {}
  for attr in ('components_', 'threshold_', 'bounds_', 'n_iter_',
               'n_features_in_'):
    if hasattr(A, attr) != hasattr(B, attr):
      same = False
      diffs[attr] = 'present in only one twin'
    elif hasattr(A, attr):
      a, b = np.asarray(getattr(A, attr)), np.asarray(getattr(B, attr))
      if not (a.shape == b.shape and np.array_equal(a, b, equal_nan=True)):
        same = False
        diffs[attr] = float(np.abs(a - b).max()) if a.shape == b.shape \
            else 'shape'
  j.check('C05.fit-state', same, dict(det, diffs=diffs))
  key = (name, spec['kind'], str(dt), spec['ds']['seed'])
  j.distinct(*(key + ('fit',)))
  if not same:
    return

  # ----- query methods
  def cmp(mon, method, ia, extra=()):
    """A.method(indices) vs B.method(formed) vs A.method(formed)."""
    fa = X[ia]
    with Quiet() as q:
      c0 = mp.n_calls if mp is not None else 0
      ra = getattr(A, method)(ia, *extra)
      c1 = mp.n_calls if mp is not None else 0
      rb = getattr(B, method)(fa, *extra)
      raf = getattr(A, method)(fa, *extra)
      c2 = mp.n_calls if mp is not None else 0
    ok = np.array_equal(np.asarray(ra), np.asarray(rb), equal_nan=True) and \
        np.array_equal(np.asarray(raf), np.asarray(rb), equal_nan=True)
    j.check(mon, ok, dict(det, method=method))
    if mp is not None:
      j.check('C05.consulted-on-indices', c1 > c0, dict(det, method=method))
      j.check('C05.not-consulted-on-formed', c2 == c1,
              dict(det, method=method, calls=c2 - c1))
    j.distinct(*(key + (method,)))
    return ra

  api.set_judge(j)
  qi = rng.randint(0, n, size=25).astype(dt)           # repeats, any order
  cmp('C05.transform', 'transform', qi)
  # formed points whose coordinates are whole numbers stored in an integer
  # dtype are still formed points - also when there is a single feature and
  # the (n, 1) array looks like a column of indicators
  fw = np.minimum(np.abs(np.round(X[qi.astype(np.int64)])), 100).astype(dt)
  with Quiet():
    c1 = mp.n_calls if mp is not None else 0
    rwa = A.transform(fw)
    c2 = mp.n_calls if mp is not None else 0
    rwb = B.transform(fw)
  j.check('C05.formed-integers', np.array_equal(rwa, rwb, equal_nan=True),
          dict(det, method='transform', shape=fw.shape, dtype=str(fw.dtype)))
  if mp is not None:
    j.check('C05.not-consulted-on-formed', c2 == c1,
            dict(det, method='transform', formed='integer-valued points',
                 calls=c2 - c1))
  # structured index columns: runs, runs with a repeat and a skip (same span
  # as a run), constants, sorted with repeats
  a0 = int(rng.randint(0, max(1, n - 8)))
  pats = [np.arange(a0, a0 + 5), np.arange(a0 + 4, a0 - 1, -1),
          np.array([a0, a0, a0 + 2, a0 + 3]), np.array([a0 + 1, a0 + 1, a0 + 3]),
          np.full(4, a0), np.sort(rng.randint(0, n, size=9)),
          np.array([a0, a0 + 1, a0 + 1, a0 + 3, a0 + 4])]
  for pat in pats:
    cmp('C05.transform', 'transform', pat.astype(dt))
    other = pat[::-1] if len(pat) % 2 else rng.randint(0, n, size=len(pat))
    cmp('C05.pair_distance', 'pair_distance',
        np.column_stack([pat, other]).astype(dt))
    cmp('C05.pair_distance', 'pair_distance',
        np.column_stack([other, pat]).astype(dt))
  if spec['kind'] == 'records':
    # first members whole-number points, second members arbitrary
    n_int = max(3, n // 3)
    pr = np.column_stack([rng.randint(0, n_int, size=12),
                          rng.randint(n_int, n, size=12)]).astype(dt)
    cmp('C05.pair_distance', 'pair_distance', pr)
    cmp('C05.pair_score', 'pair_score', pr)
  pi = rng.randint(0, n, size=(20, 2)).astype(dt)
  cmp('C05.pair_distance', 'pair_distance', pi)
  cmp('C05.pair_score', 'pair_score', pi)
  cmp('C05.score_pairs', 'score_pairs', pi)
  if name in E.PAIRS:
    ylab = np.where(ds['y'][pi[:, 0]] == ds['y'][pi[:, 1]], 1, -1)
    if len(set(ylab.tolist())) == 2:
      cmp('C05.score', 'score', pi, (ylab,))
      for strat, kw in (('accuracy', {}), ('max_tpr', {'min_rate': 0.4})):
        with Quiet():
          c0 = mp.n_calls if mp is not None else 0
          A.calibrate_threshold(pi, ylab, strategy=strat, **kw)
          c1 = mp.n_calls if mp is not None else 0
          ta = A.threshold_
          B.calibrate_threshold(X[pi], ylab, strategy=strat, **kw)
          A.calibrate_threshold(X[pi], ylab, strategy=strat, **kw)
          c2 = mp.n_calls if mp is not None else 0
        j.check('C05.calibrate_threshold',
                ta == B.threshold_ and A.threshold_ == B.threshold_,
                dict(det, strategy=strat, a=ta, b=B.threshold_))
        if mp is not None:
          j.check('C05.consulted-on-indices', c1 > c0, det)
          j.check('C05.not-consulted-on-formed', c2 == c1, det)
    cmp('C05.predict', 'predict', pi)
    cmp('C05.decision_function', 'decision_function', pi)
  elif name in ('SCML', 'LSML'):
    size = 3 if name == 'SCML' else 4
    ti = rng.randint(0, n, size=(20, size)).astype(dt)
    cmp('C05.predict', 'predict', ti)
    cmp('C05.decision_function', 'decision_function', ti)
    cmp('C05.score', 'score', ti)
  if j.sample is None:
    j.sample = dict(det, fit_indices=np.asarray(argsA[0])[:6],
                    query_indices=qi[:6],
                    preprocessor_calls=mp.n_calls if mp else None)

  # ----- the preprocessor is consulted at the time of the call: a list that
  # the caller edited in place since the last fit holds other points now
  if spec['kind'] == 'list' and isinstance(prep, list) and n >= 6:
    X2 = np.array(Xp, dtype=float, copy=True)
    X2[:n] = X2[:n] * 1.25 + 0.5 * rng.randn(n, d)
    for i_ in range(len(prep)):
      prep[i_] = X2[i_].tolist()          # in place: same list object
    with Quiet():
      try:
        B2 = E.cls(name)(**params).fit(
            *((X2[np.asarray(argsA[0])],) + tuple(argsB[1:])))
        A.fit(*argsA)
        sameA = np.array_equal(np.asarray(A.components_),
                               np.asarray(B2.components_), equal_nan=True)
        qa = A.pair_distance(pi)
        qb = B2.pair_distance(X2[pi])
        j.check('C05.fit-state', sameA and
                np.array_equal(qa, qb, equal_nan=True),
                dict(det, phase='after the list was edited in place'))
      except Exception as e:
        if not (name.startswith('SDML') and isinstance(e, RuntimeError)):
          j.violated('C05.fit-state',
                     dict(det, phase='after the list was edited in place',
                          raised=repr(e)[:200]))
  # ----- error surfacing
  from metric_learn.exceptions import PreprocessorError

  def expect_pe(mon, fn, what):
    try:
      with Quiet():
        fn()
      j.violated(mon, dict(det, what=what, why='no exception'))
    except PreprocessorError:
      j.ok(mon)
    except Exception as e:
      j.violated(mon, dict(det, what=what, raised=type(e).__name__,
                           msg=str(e)[:200]))

  exc = EXCS[(spec['ds']['seed'] + KINDS.index(spec['kind'])) % len(EXCS)]
  for exc in (EXCS if spec['kind'] == 'callable' else []):
    bad = MonitoredPreprocessor(X, raise_exc=exc)
    Abad = E.cls(name)(**dict(params, preprocessor=bad))
    expect_pe('C05.error-surfaces.fit', lambda: Abad.fit(*argsA),
              'fit/' + type(exc).__name__)
  if mp is not None:
    methods = [('transform', qi), ('pair_distance', pi), ('pair_score', pi),
               ('score_pairs', pi)]
    if name in E.PAIRS:
      methods += [('predict', pi), ('decision_function', pi)]
    elif name in ('SCML', 'LSML'):
      methods += [('predict', ti), ('decision_function', ti), ('score', ti)]
    for mi, (m, ia) in enumerate(methods):
      mp.raise_exc = EXCS[(mi + spec['ds']['seed']) % len(EXCS)]
      mp.raise_after = 0
      expect_pe('C05.error-surfaces.query',
                lambda m=m, ia=ia: getattr(A, m)(ia),
                m + '/' + type(mp.raise_exc).__name__)
    if name in E.PAIRS and len(set(ylab.tolist())) == 2:
      expect_pe('C05.error-surfaces.query',
                lambda: A.calibrate_threshold(pi, ylab), 'calibrate_threshold')
      expect_pe('C05.error-surfaces.query', lambda: A.score(pi, ylab), 'score')
    mp.raise_exc = None
  else:
    # array-like preprocessor indexed out of range
    n = len(Xp)
    oob = np.array([0, n + 5])
    expect_pe('C05.error-surfaces.out-of-range',
              lambda: A.transform(oob), 'transform')
    expect_pe('C05.error-surfaces.out-of-range',
              lambda: A.pair_distance(np.array([[0, n + 5]])),
              'pair_distance')
    if kindE in ('unsup',):
      expect_pe('C05.error-surfaces.out-of-range',
                lambda: E.cls(name)(**dict(params, preprocessor=prep))
                .fit(np.array([0, 1, 2, n + 3])), 'fit')


LEVEL_TEXT = ('Exploration by runtime monitoring with twin execution: the '
              'same estimator is driven once through indicators + '
              'preprocessor (array, nested list, monitored callable; six '
              'integer index dtypes; permuted and repeated indices) and once '
              'with the formed arrays; fitted state and the outputs of every '
              'data-taking method are compared exactly, the callable '
              'preprocessor counts consultations, and failing preprocessors '
              'are injected into fit and every query method to observe the '
              'exception type that surfaces. Held on the executions in the '
              'evidence file.')
LEVEL_NOTE = ('Exact comparisons assume that the same arithmetic on the same '
              'bits is reproducible in one process; fault injection uses five '
              'exception types chosen by the harness.')
TECHNIQUE = ('runtime monitoring: twin-execution differential oracle + '
             'instrumented preprocessor (call log, fault injection)')
