"""C18 -- constructor parameters round-trip: get_params, set_params, clone,
pickle."""
import inspect
import pickle

import numpy as np
from sklearn.base import clone
from sklearn.exceptions import NotFittedError

from .. import common, estimators as E
from ..core import rng_for, Quiet, fingerprint, fp_map, fp_diff
from ..instrument import api
from ..workloads import configs

ID = 'C18'
LEVEL = 'exploration'
RULE = ('cases = estimator (all 17) x every parameter of its constructor '
        '(enumerated with inspect.signature) x values {opaque sentinel '
        'object, ndarray, callable, non-default scalar}: value passed at '
        'construction / via set_params must be returned by get_params as the '
        'identical object (value kinds: opaque object, ndarray, callable, '
        'float, int, str, list, None); random set_params / clone / pickle sequences '
        'against a dictionary model of the parameters; deprecated aliases '
        '(num_constraints, num_chunks, convergence_threshold, k) must land '
        'in their replacement with exactly one FutureWarning; every query '
        'method on an unfitted instance must raise NotFittedError; clone and '
        'pickle of fitted estimators are compared on all outputs. An '
        'evaluation is one identity / equality / exception-type judgement. '
        'distinct_nontrivial counts distinct (estimator, parameter, value '
        'kind) and (estimator, sequence).')
ASSUMPTIONS = ['identity (`is`) is demanded for values passed to the '
               'constructor and to set_params; after clone / pickle arrays '
               'are compared by bytes (both copy by design)']
TIMEOUT = {'quick': 900, 'thorough': 3 * 3600}
EXHAUSTIVE = {'quick': '(estimator, constructor parameter) pairs',
              'thorough': '(estimator, constructor parameter) pairs'}
setup_worker = common.setup_worker

ALIASES_ALL = {'num_constraints': 'n_constraints', 'num_chunks': 'n_chunks',
           'convergence_threshold': 'tol', 'k': 'n_neighbors'}


class Sentinel:
  def __repr__(self):
    return '<sentinel>'


def _callable(x):
  return x


def cases(tier, seed):
  nseq = 6 if tier == 'quick' else 600
  return [{'est': name, 'seed': seed, 'nseq': nseq} for name in E.ALL]


def required(tier):
  q = tier == 'quick'
  return {'C18.constructor-identity': 400, 'C18.set_params-identity': 400,
          'C18.sequence-model': 60 if q else 800,
          'C18.alias-maps': 9, 'C18.alias-one-warning': 9,
          'C18.unfitted-raises': 100, 'C18.clone-same-model': 24,
          'C18.set_params-then-fit': 12,
          'C18.params-untouched-by-fit': 12,
          'C18.pickle-bitwise': 15}


def run_case(spec, j):
  name = spec['est']
  cls = E.cls(name)
  rng = rng_for('c18', spec['seed'], name)
  sig = inspect.signature(cls.__init__)
  params = [p for p in sig.parameters if p != 'self']
  # a parameter is a deprecated alias iff its default is the sentinel
  # (LFDA has a genuine parameter called k)
  ALIASES = {a: t for a, t in ALIASES_ALL.items() if a in params and
             isinstance(sig.parameters[a].default, str) and
             sig.parameters[a].default == 'deprecated'}
  det0 = {'est': name}
  api.set_judge(j)
  values = {'sentinel': Sentinel, 'ndarray': lambda: rng.randn(3, 3),
            'callable': lambda: _callable,
            'scalar': lambda: float(rng.uniform(2, 3)),
            'int': lambda: int(rng.randint(1000, 2000)),
            'str': lambda: 'value-%d' % rng.randint(1000),
            'list': lambda: [1.0, 2.0], 'none': lambda: None}
  for p in params:
    if p in ALIASES:
      continue
    for vk, mk in values.items():
      v = mk()
      det = dict(det0, parameter=p, value_kind=vk)
      try:
        with Quiet():
          e = cls(**{p: v})
          got = e.get_params(deep=False)[p]
      except Exception as ex:
        j.violated('C18.constructor-identity',
                   dict(det, raised=repr(ex)[:200]),
                   mechanism='constructor-raised:%s' % p)
        continue
      j.check('C18.constructor-identity', got is v,
              dict(det, got=repr(got)[:60]),
              mechanism='not-identical:%s' % p)
      # other parameters keep their defaults
      others_ok = True
      for q_, dflt in sig.parameters.items():
        if q_ in ('self', p) or q_ in ALIASES:
          continue
        cur = e.get_params(deep=False)[q_]
        if not (cur is dflt.default or cur == dflt.default):
          others_ok = False
          det['other_changed'] = q_
      j.check('C18.defaults-untouched', others_ok, det)
      v2 = mk()
      try:
        with Quiet():
          r = e.set_params(**{p: v2})
          got2 = e.get_params(deep=False)[p]
        j.check('C18.set_params-identity', got2 is v2 and r is e, det,
                mechanism='set_params-not-identical:%s' % p)
      except Exception as ex:
        j.violated('C18.set_params-identity',
                   dict(det, raised=repr(ex)[:200]))
      j.distinct(name, p, vk)
  # ---- deprecated aliases
  for alias, target in ALIASES.items():
    if alias not in params:
      continue
    main = 7 if alias != 'convergence_threshold' else 0.123
    # the value given through the alias is the replacement's value whatever
    # it is: falsy ones (0, 0.0, False, None, empty) included
    for val in (main, 0, 0.0, False, None, '', Sentinel()):
      with Quiet() as q:
        try:
          e = cls(**{alias: val})
        except Exception as ex:
          j.violated('C18.alias-maps', dict(det0, alias=alias, value=repr(val),
                                            raised=repr(ex)[:200]))
          continue
      gp = e.get_params(deep=False)
      j.check('C18.alias-maps',
              gp[target] is val and gp[alias] == 'deprecated',
              dict(det0, alias=alias, target=target, value=repr(val),
                   got=repr(gp[target]), alias_value=gp[alias]))
      fw = q.of(FutureWarning)
      j.check('C18.alias-one-warning', len(fw) == 1,
              dict(det0, alias=alias, value=repr(val), n_warnings=len(fw)))
    with Quiet() as q:
      cls()
    j.check('C18.alias-no-warning-by-default', len(q.of(FutureWarning)) == 0,
            dict(det0, alias=alias))
    j.distinct(name, alias, 'alias')
  # ---- random set_params / clone / pickle sequences vs a dict model
  plain = [p for p in params if p not in ALIASES]
  for s in range(spec['nseq']):
    e = cls()
    model = {p: sig.parameters[p].default for p in plain}
    ops = []
    ok = True
    why = None
    for step in range(int(rng.randint(2, 8))):
      op = ['set', 'set', 'clone', 'pickle'][int(rng.randint(4))]
      ops.append(op)
      try:
        with Quiet():
          if op == 'set':
            p = plain[int(rng.randint(len(plain)))]
            v = values[['sentinel', 'ndarray', 'callable', 'scalar']
                       [int(rng.randint(4))]]()
            if isinstance(v, Sentinel):
              v = float(rng.randint(100))   # picklable stand-in
            e.set_params(**{p: v})
            model[p] = v
            ops[-1] = 'set:' + p
          elif op == 'clone':
            e = clone(e)
          else:
            e = pickle.loads(pickle.dumps(e))
      except Exception as ex:
        ok = False
        why = 'raised %r at %s' % (ex, ops)
        break
      gp = e.get_params(deep=False)
      bad = fp_diff(fp_map({p: gp[p] for p in plain}), fp_map(model))
      if bad:
        ok = False
        why = 'parameters %s differ after %s' % (bad, ops)
        break
    j.check('C18.sequence-model', ok, dict(det0, why=str(why)[:300]))
    j.distinct(name, 'seq', s)
  # ---- unfitted use raises NotFittedError
  e = cls()
  X = rng.randn(5, 3)
  P2 = rng.randn(4, 2, 3)
  T = rng.randn(4, E.TUPLE_SIZE.get(E.KIND[name], 2), 3)
  calls = [('transform', (X,)), ('pair_distance', (P2,)),
           ('pair_score', (P2,)), ('score_pairs', (P2,)),
           ('get_metric', ()), ('get_mahalanobis_matrix', ())]
  if E.KIND[name] in ('pairs', 'triplets', 'quadruplets'):
    calls += [('predict', (T,)), ('decision_function', (T,))]
    if E.KIND[name] == 'pairs':
      calls += [('score', (T, np.array([1, -1, 1, -1]))),
                ('set_threshold', (1.0,)),
                ('calibrate_threshold', (T, np.array([1, -1, 1, -1])))]
    else:
      calls += [('score', (T,))]
  for m, a in calls:
    try:
      with Quiet():
        getattr(e, m)(*a)
      j.violated('C18.unfitted-raises', dict(det0, method=m, why='returned'))
    except NotFittedError:
      j.ok('C18.unfitted-raises')
    except Exception as ex:
      j.violated('C18.unfitted-raises', dict(det0, method=m,
                                             raised=type(ex).__name__,
                                             msg=str(ex)[:100]))
  # ---- clone behaves identically when fitted; pickle preserves outputs
  for rep in range(2 + 2 * (name == 'LFDA')):
    dss = {'seed': int(rng.randint(2**31 - 1)), 'd': int(rng.randint(2, 5)),
           'classes': 2 + rep % 2, 'variant': 'plain', 'nmax': 40}
    ds = common.dataset(dss)
    cfgs = [c for c in configs.light(name, ds['d'], ds['classes'])
            if not c.get('diagonal')]
    cfg = dict(cfgs[rep % len(cfgs)])
    if rep == 1:
      # array-valued options: "stored untouched" must survive fit
      arr = {'LMNN': {'init': '@randn'}, 'NCA': {'init': '@randn'},
             'MLKR': {'init': '@randn'}, 'ITML': {'prior': '@spd'},
             'ITML_Supervised': {'prior': '@spd'}, 'LSML': {'prior': '@spd'},
             'LSML_Supervised': {'prior': '@spd'}, 'SDML': {'prior': '@spd'},
             'SDML_Supervised': {'prior': '@spd'}, 'MMC': {'init': '@spd'},
             'MMC_Supervised': {'init': '@spd'}, 'SCML': {'basis': '@basis'},
             'SCML_Supervised': {'basis': '@basis'}}.get(name)
      if arr:
        cfg = dict(arr)
    s = {'est': name, 'params': cfg, 'ds': dss,
         'seed': int(rng.randint(1000))}
    f = common.build(s, ds, preprocessor='array' if rep == 1 else None)
    try:
      c = clone(f.est)
    except Exception as ex:
      j.violated('C18.clone-same-model',
                 dict(det0, params=s['params'], why='clone raised',
                      raised=repr(ex)[:200]), mechanism='clone-raised')
      continue
    params_before = fp_map(f.est.get_params(deep=False))
    with Quiet():
      try:
        api.set_judge(j, well_formed=True)
        f.fit()
      except Exception as ex:
        api.set_well_formed(False)
        j.skip('fit', 'raised-%s' % type(ex).__name__)
        continue
      finally:
        api.set_well_formed(False)
      try:
        c.fit(*f.args, **f.kwargs)
      except Exception as ex:
        if name.startswith('SDML') and isinstance(ex, RuntimeError):
          j.skip('fit', 'sdml-solver-failure')
        else:
          j.violated('C18.clone-same-model',
                     dict(det0, params=s['params'], why='the original fitted, '
                          'its clone raised', raised=repr(ex)[:200]),
                     mechanism='clone-fit-raised')
        continue
    Ma, Mb = f.est.get_mahalanobis_matrix(), c.get_mahalanobis_matrix()
    j.close('C18.clone-same-model', Mb, Ma,
            1e-9 * max(np.abs(Ma).max(), 1e-300), dict(det0, params=s['params']))
    changed = fp_diff(params_before, fp_map(f.est.get_params(deep=False)))
    j.check('C18.params-untouched-by-fit', not changed,
            dict(det0, params=s['params'], changed=changed))
    # a clone taken *after* fitting is an unfitted estimator that behaves
    # identically when fitted
    with Quiet():
      try:
        c2 = clone(f.est)
        c2.fit(*f.args, **f.kwargs)
        j.close('C18.clone-same-model', c2.get_mahalanobis_matrix(), Ma,
                1e-9 * max(np.abs(Ma).max(), 1e-300),
                dict(det0, params=s['params'], clone='after fit'))
      except Exception as ex:
        j.violated('C18.clone-same-model',
                   dict(det0, clone='after fit', raised=repr(ex)[:200]))
    # a value given through set_params to an estimator that was fitted
    # before takes effect exactly like the same value given to a fresh clone
    changes = {}
    gp = f.est.get_params(deep=False)
    if isinstance(gp.get('preprocessor'), np.ndarray):
      A = gp['preprocessor']
      changes['preprocessor'] = A * 1.5 + 0.5 * rng.randn(*A.shape)
    for k_, v_ in (('max_iter', None), ('random_state', 12345)):
      if k_ in gp and k_ not in ALIASES:
        changes[k_] = (int(gp[k_]) + 3) if v_ is None else v_
    if changes:
      with Quiet():
        try:
          f.est.set_params(**changes)
          c3 = clone(f.est)
          f.est.fit(*f.args, **f.kwargs)
          c3.fit(*f.args, **f.kwargs)
          M1, M3 = f.est.get_mahalanobis_matrix(), c3.get_mahalanobis_matrix()
          j.close('C18.set_params-then-fit', M1, M3,
                  1e-9 * max(np.abs(M3).max(), 1e-300),
                  dict(det0, changed=sorted(changes)))
        except Exception as ex:
          if name.startswith('SDML') and isinstance(ex, RuntimeError):
            j.skip('C18.set_params-then-fit', 'sdml-solver-failure')
          else:
            j.violated('C18.set_params-then-fit',
                       dict(det0, changed=sorted(changes),
                            raised=repr(ex)[:200]))
    e2 = pickle.loads(pickle.dumps(f.est))
    Xq = np.asarray(ds['X'], dtype=float)
    Q = Xq[rng.randint(0, len(Xq), size=(8, 2))]
    same = True
    with Quiet():
      outs = [('pair_distance', (Q,)), ('pair_score', (Q,)),
              ('transform', (Xq[:6],)), ('get_mahalanobis_matrix', ())]
      k = E.KIND[name]
      if k in ('pairs', 'triplets', 'quadruplets'):
        Tq = Xq[rng.randint(0, len(Xq), size=(8, E.TUPLE_SIZE[k]))]
        outs += [('predict', (Tq,)), ('decision_function', (Tq,))]
      for m, a in outs:
        ra, rb = getattr(f.est, m)(*a), getattr(e2, m)(*a)
        if not np.array_equal(np.asarray(ra), np.asarray(rb), equal_nan=True):
          same = False
          det0 = dict(det0, differing_method=m)
      u, v = Xq[0], Xq[1]
      if f.est.get_metric()(u, v) != e2.get_metric()(u, v):
        same = False
    changed = fp_diff(fp_map(api._fitted_state(f.est)),
                      fp_map(api._fitted_state(e2)))
    j.check('C18.pickle-bitwise', same and not changed,
            dict(det0, changed=changed))
  # numeric hyper-parameters handed over as 0-d arrays (what indexing a
  # parameter grid held in an ndarray yields): fit must leave them alone
  dss0 = {'seed': int(rng.randint(2**31 - 1)), 'd': 3, 'classes': 2,
          'variant': 'plain', 'nmax': 40}
  ds0 = common.dataset(dss0)
  f0 = common.build({'est': name, 'params': {}, 'ds': dss0, 'seed': 5}, ds0)
  gp0 = f0.est.get_params(deep=False)
  for pn, pv in sorted(gp0.items()):
    if isinstance(pv, bool) or not isinstance(pv, (int, float)) or \
            pn in ALIASES or pn == 'random_state':
      continue
    arr = np.array(pv)
    e0 = clone(f0.est).set_params(**{pn: arr})
    before = arr.copy()
    with Quiet():
      try:
        e0.fit(*f0.args, **f0.kwargs)
      except Exception:
        # (a 0-d array is not a documented way to write a number: only what
        # fit does to it when it accepts it is judged)
        j.count('c18.zero-d-param-rejected')
        continue
    j.check('C18.params-untouched-by-fit',
            np.array_equal(arr, before, equal_nan=True) and
            e0.get_params(deep=False)[pn] is arr,
            dict(det0, parameter=pn, before=before, after=arr))
  if name in ('NCA', 'MLKR', 'LMNN'):
    # random_state must reach every randomised step: on data large and wide
    # enough, the PCA initialisation uses a randomized solver
    n_, d_ = int(rng.randint(510, 540)), int(rng.randint(56, 66))
    yl = rng.randint(0, 4, size=n_)
    Xl = rng.randn(n_, d_) + rng.randn(4, d_)[yl] * 2.0
    argsl = (Xl, Xl[:, 0] + 0.1 * rng.randn(n_)) if name == 'MLKR' \
        else (Xl, yl)
    pl = dict(init='pca', n_components=5, max_iter=2, random_state=7)
    if name == 'LMNN':
      pl.update(n_neighbors=2, learn_rate=1e-6)
    e1 = cls(**pl)
    e2 = clone(e1)
    with Quiet():
      try:
        e1.fit(*argsl)
        e2.fit(*argsl)
        M1, M2 = e1.get_mahalanobis_matrix(), e2.get_mahalanobis_matrix()
        j.close('C18.clone-same-model', M2, M1,
                1e-9 * max(np.abs(M1).max(), 1e-300),
                dict(det0, params=pl, data='%dx%d' % (n_, d_)))
      except Exception as ex:
        j.violated('C18.clone-same-model',
                   dict(det0, params=pl, raised=repr(ex)[:200]),
                   mechanism='large-data-fit-raised')
  if j.sample is None:
    j.sample = dict(est=name, parameters=params,
                    aliases=sorted(ALIASES))


LEVEL_TEXT = ('Exploration by runtime monitoring, exhaustive over (estimator, '
              'constructor parameter): every parameter of every constructor '
              'is set to four kinds of values through the constructor and '
              'through set_params and read back with get_params (identity); '
              'random set_params / clone / pickle sequences are compared with '
              'a dictionary model; deprecated aliases, NotFittedError on '
              'every query method of unfitted instances, clone-then-fit '
              'equality and bitwise pickle round trips of fitted estimators '
              'are observed on the real classes. Held on the executions in '
              'the evidence file.')
LEVEL_NOTE = ('Exhaustive over the finite set of (estimator, parameter) '
              'pairs, not over parameter values (four value kinds).')
TECHNIQUE = ('runtime monitoring: identity/equality oracle on get_params '
             'after construction, set_params, clone and pickle + dictionary '
             'reference model for parameter sequences')
