"""C10 -- NCA / MLKR / LMNN optimise the objective they document."""
import numpy as np

from .. import common, estimators as E
from ..core import rng_for, Quiet
from ..instrument import api, names
from ..oracles import objectives as O
from ..oracles.psd import expected_auto

ID = 'C10'
LEVEL = 'exploration'
RULE = ('cases = {NCA, MLKR, LMNN} x init option x n_components (incl. '
        'k < d) x n_neighbors / regularization / learn_rate / max_iter (incl. '
        'zero-iteration budgets) x seeded well-formed dataset. The function '
        'handed to scipy.optimize.minimize (NCA, MLKR) and LMNN._loss_grad '
        'are wrapped, so every objective/gradient evaluation the optimiser '
        'makes is an event; at every evaluation point the value is compared '
        'with a loop-level evaluation of the documented objective and, on a '
        'sample, the gradient with central finite differences of that '
        'reference. The trace is then checked offline (descent from the '
        'documented initialisation, LMNN accepted iterates non-increasing, '
        'result = last accepted / x0 on zero iterations). An evaluation is '
        'one judged event or one trace clause. distinct_nontrivial counts '
        'distinct (estimator, configuration, dataset) whose trace has >= 2 '
        'distinct evaluation points or is a zero-iteration case.')
ASSUMPTIONS = ['finite-difference gradients are judged away from hinge kinks '
               '(LMNN: smallest |hinge argument| >= 1e-4) with tolerance '
               '1e-5*max(|g|, 1e-6|f|)',
               'pca / lda / auto initialisations are tied to the '
               'documentation through the (rotation-invariant) objective '
               'value at the harness-recomputed initialisation']
TIMEOUT = {'quick': 1200, 'thorough': 4 * 3600}
CASE_TIMEOUT = {'quick': 300, 'thorough': 900}

_trace = {'min': [], 'lmnn': []}


def setup_worker(tier=None):
  common.setup_worker(tier)
  from metric_learn import nca, mlkr
  from metric_learn.lmnn import LMNN

  def min_factory(tag):
    def factory(orig):
      def minimize(fun=None, x0=None, args=(), **kw):
        rec = {'tag': tag, 'x0': np.array(x0, copy=True), 'evals': [],
               'args': args, 'kw': {k: v for k, v in kw.items()
                                    if k in ('tol', 'options', 'method')}}

        def wrapped(x, *a):
          r = fun(x, *a)
          rec['evals'].append((np.array(x, copy=True), float(r[0]),
                               np.array(r[1], copy=True)))
          return r
        res = orig(wrapped, x0, args, **kw)
        rec['x'] = np.array(res.x, copy=True)
        rec['nit'] = int(res.nit)
        _trace['min'].append(rec)
        return res
      return minimize
    return factory
  names.patch_name(nca, 'minimize', min_factory('NCA'))
  names.patch_name(mlkr, 'minimize', min_factory('MLKR'))

  def lg_factory(orig):
    def _loss_grad(self, X, L, dfG, k, reg, target_neighbors, label_inds):
      Lc = np.array(L, copy=True)
      r = orig(self, X, L, dfG, k, reg, target_neighbors, label_inds)
      _trace['lmnn'].append({'L': Lc, 'G': np.array(r[0], copy=True),
                             'obj': float(r[1]), 'active': int(r[2]),
                             'targets': np.array(target_neighbors, copy=True),
                             'labels': np.array(label_inds, copy=True),
                             'reg': reg, 'k': k})
      return r
    return _loss_grad
  names.wrap_method(LMNN, '_loss_grad', lg_factory)


INITS = ['auto', 'pca', 'identity', 'random', '@randn', 'lda', '@aniso']


def cases(tier, seed):
  out = []
  q = tier == 'quick'
  nper = 24 if q else 2000
  for name in ('NCA', 'MLKR', 'LMNN'):
    for i in range(nper + (16 if q and name == 'LMNN' else 0)):
      r = rng_for('c10', seed, name, i)
      d = int(r.randint(2, 5 if q else 7))
      classes = int(r.randint(2, 4))
      init = INITS[i % len(INITS)]
      if name == 'MLKR' and init == 'lda':
        init = 'pca'
      kopts = [None, 1, max(1, d - 1), d]
      k = kopts[(i // 2) % 4]
      if init == 'lda':
        k = int(min(k or d, classes - 1))
      p = {'init': init, 'n_components': k}
      zero = (i % 5 == 4)
      if name == 'LMNN':
        p.update(n_neighbors=int(1 + i % 3),
                 regularization=[0.1, 0.5, 0.9][i % 3],
                 # (absurdly large rates are legal: the line search halves
                 # them, a hundred times and more if it must)
                 learn_rate=[1e-7, 1e-4, 1e-2, 0.3, 1e-3, 0.1, 1.0, 3e-3, 0.03,
                             3.0, 1e-5, 1e40, 1e80][i % 13],
                 max_iter=(int(r.choice([0, 1, 2])) if zero else
                           int(r.randint(4, 24))),
                 min_iter=[3, 0, 1, 5][(i // 3) % 4],
                 # (the stopping rule must not leak into step acceptance: a
                 # large tolerance makes any difference "small")
                 convergence_tol=[1e-3, 1e-1, 10.0, 1e-5, 1e3][(i // 2) % 5])
      else:
        p.update(max_iter=int(r.randint(2, 7)))
        if zero:
          p['tol'] = 1e10
      # (progress output is a configuration like any other: it must not
      # alter what is computed)
      if i % 5 == 2:
        p['verbose'] = True
      out.append({'est': name, 'params': p, 'zero': zero,
                  'duplicates': bool(i % 4 == 1),
                  'ds': {'seed': int(r.randint(2**31 - 1)), 'd': d,
                         'classes': classes,
                         'variant': 'separated' if i % 4 == 2 else 'plain',
                         'nmax': 36 if q else 48},
                  'seed': int(r.randint(1000))})
  # LMNN with a strongly anisotropic start: the target neighbours are chosen
  # once, by Euclidean distance, but the margins live in the learned space,
  # where the "nearest" target neighbour may well be the farthest - so an
  # impostor can sit inside the margin of a closer (Euclidean) neighbour
  # without being inside that of the last one.  Few points, separated
  # classes: margins are violated sparsely.
  for i in range(24 if q else 600):
    r = rng_for('c10-aniso', seed, i)
    d = int(r.randint(2, 5))
    out.append({'est': 'LMNN', 'zero': False, 'duplicates': False,
                'params': {'init': '@aniso', 'n_components': None,
                           'n_neighbors': int(2 + i % 2),
                           'regularization': [0.5, 0.1, 0.9][i % 3],
                           'learn_rate': [1e-6, 1e-3, 0.1][(i // 2) % 3],
                           'max_iter': int(r.randint(3, 9)),
                           'min_iter': 0, 'convergence_tol': 1e-3},
                'ds': {'seed': int(r.randint(2**31 - 1)), 'd': d,
                       'classes': int(2 + i % 2),
                       'variant': ['separated', 'plain'][i % 4 == 3],
                       'nmax': [12, 16, 24][i % 3], 'nmin': 8},
                'seed': int(r.randint(1000))})
  # ... and the same situation by construction ("rungs"): every point's
  # Euclidean-nearest target neighbour lies along a direction the start
  # stretches a hundredfold, its second one along a direction it keeps, and
  # the other class sits at a learned distance between the two margins - the
  # push term is active for the *first* target neighbour only
  for i in range(8 if q else 200):
    r = rng_for('c10-rungs', seed, i)
    out.append({'est': 'LMNN', 'zero': False, 'duplicates': False,
                'rungs': {'m': int(r.randint(3, 6)),
                          'stretch': float(r.choice([30.0, 100.0, 300.0])),
                          'gap': float(r.uniform(1.7, 3.0)),
                          'd': int(r.randint(2, 5))},
                'params': {'init': '@rungs', 'n_components': None,
                           'n_neighbors': 2,
                           'regularization': [0.5, 0.1, 0.9][i % 3],
                           'learn_rate': [1e-7, 1e-5, 1e-3][(i // 2) % 3],
                           'max_iter': int(r.randint(2, 6)),
                           'min_iter': 0, 'convergence_tol': 1e-3},
                'ds': {'seed': int(r.randint(2**31 - 1)), 'd': 2,
                       'classes': 2, 'variant': 'plain', 'nmax': 12},
                'seed': int(r.randint(1000))})
  return out


def _rungs(spec):
  """(X, y, L0) of the 'rungs' family."""
  g = spec['rungs']
  r = rng_for('c10-rungs-data', spec['ds']['seed'])
  d, m = g['d'], g['m']
  # increasing, pairwise different spacings between 1 and 1.3 (no ties)
  xs = np.cumsum(1.0 + 0.3 * np.sort(r.rand(m)))
  rows, lab = [], []
  for cls, x0 in ((0, 0.0), (1, xs[-1] - xs[0] + g['gap'])):
    for x in xs:
      for h in (0.0, 0.5 + 0.05 * r.rand()):
        rows.append([x - xs[0] + x0, h] +
                    list(0.01 * r.randn(d - 2)))
        lab.append(cls)
  P = np.array(rows)
  Q = np.linalg.qr(r.randn(d, d))[0]
  sv = np.ones(d)
  sv[1] = g['stretch']
  X = P.dot(Q.T)                 # the construction in a rotated frame
  L0 = (Q * sv).T                # L0 x = diag(sv) Q' x
  perm = r.permutation(len(X))
  return X[perm], np.array(lab)[perm], L0


def required(tier):
  q = tier == 'quick'
  n = 8 if q else 120
  return {'C10.NCA.value': 3 * n, 'C10.MLKR.value': 3 * n,
          'C10.LMNN.value': 3 * n, 'C10.NCA.gradient': n // 2,
          'C10.MLKR.gradient': n // 2, 'C10.LMNN.gradient': n // 2,
          'C10.NCA.descent': n, 'C10.MLKR.descent': n, 'C10.LMNN.descent': n,
          'C10.LMNN.accepted-nonincreasing': n, 'C10.LMNN.result-last-accepted': n,
          'C10.LMNN.trial-direction': n,
          'C10.zero-iterations': n // 2, 'C10.x0-is-documented-init': n,
          'monitor.trace-captured': 3 * n}


def harness_init(init, k, X, y, seed, has_classes, given=None):
  """The documented initialisation recomputed independently -> (L0, exact)."""
  from sklearn.decomposition import PCA
  from sklearn.discriminant_analysis import LinearDiscriminantAnalysis
  n, d = X.shape
  if isinstance(given, np.ndarray):
    return given.astype(float), True
  if init == 'auto':
    acc = expected_auto(has_classes, d, n, k, len(np.unique(y))
                        if has_classes else -1)
    if len(acc) != 1:
      return None, False
    init = sorted(acc)[0]
  if init == 'identity':
    return np.eye(k, d), True
  if init == 'random':
    return np.random.RandomState(seed).randn(k, d), True
  if init == 'pca':
    return PCA(n_components=k, svd_solver='full').fit(X).components_, False
  if init == 'lda':
    return LinearDiscriminantAnalysis(n_components=k).fit(X, y)\
        .scalings_.T[:k], False
  return None, False


def _fd_tol(gfd, fval, h):
  """1e-5 relative on the gradient plus the rounding floor of central
  differences (eps*|f|/h per component)."""
  eps = np.finfo(float).eps
  return (1e-5 * np.linalg.norm(gfd) +
          200 * eps * max(abs(fval), 1.0) / h * np.sqrt(gfd.size))


def run_case(spec, j):
  name = spec['est']
  ds = common.dataset(spec['ds'])
  if spec.get('duplicates'):
    # exact duplicates, within and across classes (zero distances between
    # distinct samples), and integer-valued features for a few rows
    rd = rng_for('c10dup', spec['ds']['seed'])
    Xd = np.array(ds['X'], dtype=float, copy=True)
    for _ in range(5):
      a, b = rd.choice(len(Xd), 2, replace=False)
      Xd[a] = Xd[b]
    ds = dict(ds, X=Xd)
  if spec.get('rungs'):
    Xr, yr, L0r = _rungs(spec)
    ds = dict(ds, X=Xr, y=yr, t=yr.astype(float), d=Xr.shape[1], n=len(Xr))
    spec = dict(spec, params=dict(spec['params'], init=L0r))
    j.count('lmnn.rungs-family')
  X = np.asarray(ds['X'], dtype=float)
  y = ds['t'] if name == 'MLKR' else ds['y']
  n, d = X.shape
  f = common.build(spec, ds, use_fast=False)
  p = f.meta['params']
  k = p.get('n_components') or d
  del _trace['min'][:]
  del _trace['lmnn'][:]
  api.set_judge(j, well_formed=True)
  det = {'est': name, 'params': spec['params'], 'n': n, 'd': d}
  with Quiet():
    try:
      f.fit()
    except Exception as e:
      api.set_well_formed(False)
      j.skip('fit', 'raised-%s' % type(e).__name__)
      j.note('fit raised %r %s' % (e, spec))
      return
  api.set_well_formed(False)
  est = f.est
  Lres = est.components_
  given = p['init'] if isinstance(p['init'], np.ndarray) else None
  L0h, exact = harness_init(spec['params']['init'], k, X, ds['y'],
                            p['random_state'], name != 'MLKR', given)
  rng = rng_for('c10fd', spec['ds']['seed'])
  if name in ('NCA', 'MLKR'):
    recs = [r for r in _trace['min'] if r['tag'] == name]
    if len(recs) != 1 or not recs[0]['evals']:
      j.skip('C10', 'minimize-not-observed')
      return
    j.ok('monitor.trace-captured')
    rec = recs[0]
    if name == 'NCA':
      ref = lambda L: -O.nca_objective(L, X, ds['y'])      # noqa: E731
    else:
      ref = lambda L: O.mlkr_objective(L, X, ds['t'])      # noqa: E731
    fref = lambda x: ref(x.reshape(k, d))                   # noqa: E731
    evals = rec['evals']
    EPS_ = np.finfo(float).eps
    trange = float(np.ptp(ds['t'])) ** 2 if name == 'MLKR' else 1.0
    for e_i, (x, val, g) in enumerate(evals):
      r = fref(x)
      # the library forms squared distances as |z_i|^2 + |z_j|^2 - 2 z_i.z_j:
      # each carries a cancellation error of a few eps * max |z|^2, which
      # the soft-max passes on to every term of the objective (3.8e-6 was
      # seen at |z|^2 ~ 1e9 on data with exact duplicates: thorough, seed 4)
      z2 = float((X.dot(x.reshape(k, d).T) ** 2).sum(axis=1).max())
      j.close('C10.%s.value' % name, val, r,
              1e-9 * max(abs(r), 1e-3) + 32 * EPS_ * z2 * len(X) * trange,
              dict(det, eval=e_i, max_embedded_norm_sq=z2))
    pick = [0] + [i for i in range(1, len(evals)) if rng.rand() < 0.25][:2]
    for e_i in pick:
      x, val, g = evals[e_i]
      gfd = O.fd_gradient(fref, x)
      err = np.linalg.norm(g - gfd)
      tol = _fd_tol(gfd, val, 1e-6)
      j.close('C10.%s.gradient' % name, err, 0.0, tol,
              dict(det, eval=e_i, gnorm=np.linalg.norm(gfd)))
    x0 = rec['x0'].reshape(k, d)
    f0 = fref(rec['x0'])
    fres = ref(Lres)
    j.check('C10.%s.descent' % name, fres <= f0 + 1e-9 * max(abs(f0), 1e-3),
            dict(det, f_result=fres, f_x0=f0))
    j.check('C10.result-is-optimizer-x',
            np.array_equal(Lres.ravel(), rec['x']), det)
    nit = rec['nit']
    if nit == 0:
      j.check('C10.zero-iterations', np.array_equal(Lres, x0),
              dict(det, nit=nit))
    elif spec['zero']:
      j.skip('C10.zero-iterations', 'optimizer-iterated-anyway')
    trace_pts = len(set(e[0].tobytes() for e in evals))
  else:
    tr = list(_trace['lmnn'])
    if not tr:
      j.skip('C10', 'loss_grad-not-observed')
      return
    j.ok('monitor.trace-captured')
    kk = p['n_neighbors']
    reg = p['regularization']
    T, tie = O.lmnn_targets(X, ds['y'], kk)
    if tie:
      j.skip('C10.LMNN', 'target-neighbour-tie')
      return
    # the target neighbours the code used are the documented ones (as sets)
    same_targets = all(set(a.tolist()) == set(b.tolist())
                       for a, b in zip(tr[0]['targets'], T))
    j.check('C10.LMNN.targets', same_targets, det)
    if not same_targets:
      return
    ref = lambda L: O.lmnn_objective(L, X, ds['y'], T, reg)   # noqa: E731
    vals = []
    for e_i, ev in enumerate(tr):
      r, kink = ref(ev['L'])
      vals.append(r)
      j.close('C10.LMNN.value', ev['obj'], r, 1e-9 * max(abs(r), 1e-3),
              dict(det, eval=e_i))
    pick = [0] + [i for i in range(1, len(tr)) if rng.rand() < 0.25][:2]
    for e_i in pick:
      ev = tr[e_i]
      r, kink = ref(ev['L'])
      # (a central difference with step h moves a hinge argument
      # 1 + |L(xi-xj)|^2 - |L(xi-xl)|^2 by up to 4 h |L| R^2, R the diameter
      # of the data: with a start that stretches a direction 300-fold that
      # is far more than the 1e-4 that suffices at unit scale - thorough
      # sweep, seed 1, 'rungs' family)
      R2 = float(((X.max(axis=0) - X.min(axis=0)) ** 2).sum())
      band = max(1e-4, 8 * 1e-7 * np.linalg.norm(ev['L'], 2) * R2)
      if kink < band:
        j.skip('C10.LMNN.gradient', 'near-hinge-kink')
        continue
      gfd = O.fd_gradient(lambda x: ref(x.reshape(ev['L'].shape))[0],
                          ev['L'].ravel(), h=1e-7)
      err = np.linalg.norm(ev['G'].ravel() - gfd)
      tol = _fd_tol(gfd, r, 1e-7)
      j.close('C10.LMNN.gradient', err, 0.0, tol,
              dict(det, eval=e_i, gnorm=np.linalg.norm(gfd)))
    # offline trace checker: accepted iterates
    acc = [0]
    for i in range(1, len(tr)):
      if tr[i]['obj'] <= tr[acc[-1]]['obj']:
        acc.append(i)
    ref_acc = [vals[i] for i in acc]
    noninc = all(b <= a + 1e-9 * max(abs(a), 1e-3)
                 for a, b in zip(ref_acc, ref_acc[1:]))
    j.count('lmnn.rejected-steps', len(tr) - len(acc))
    j.check('C10.LMNN.accepted-nonincreasing', noninc,
            dict(det, accepted_objectives=ref_acc[:8]))
    # every trial point is the current (last accepted) iterate minus a
    # positive multiple of the gradient *at that iterate*
    dir_ok, why_dir = True, None
    cur = 0
    for i in range(1, len(tr)):
      step = tr[cur]['L'] - tr[i]['L']
      g = tr[cur]['G']
      ns, ng = np.linalg.norm(step), np.linalg.norm(g)
      if ns > 0 and ng > 0:
        c_ = float(np.sum(step * g)) / (ng * ng)
        resid = np.linalg.norm(step - c_ * g) / ns
        if not (c_ > 0 and resid <= 1e-6):
          dir_ok = False
          why_dir = dict(eval=i, from_eval=cur, multiple=c_, residual=resid)
          break
      if tr[i]['obj'] <= tr[cur]['obj']:
        cur = i
    j.check('C10.LMNN.trial-direction', dir_ok, dict(det, why=why_dir))
    j.check('C10.LMNN.result-last-accepted',
            np.array_equal(Lres, tr[acc[-1]]['L']),
            dict(det, n_evals=len(tr), accepted=len(acc)))
    x0 = tr[0]['L']
    f0 = vals[0]
    fres = ref(Lres)[0]
    j.check('C10.LMNN.descent', fres <= f0 + 1e-9 * max(abs(f0), 1e-3),
            dict(det, f_result=fres, f_x0=f0))
    if p['max_iter'] <= 2:
      j.check('C10.zero-iterations',
              len(tr) == 1 and np.array_equal(Lres, x0),
              dict(det, n_evals=len(tr)))
    trace_pts = len(set(e['L'].tobytes() for e in tr))
  # ---- x0 is the documented initialisation
  if L0h is not None:
    if exact:
      j.check('C10.x0-is-documented-init',
              x0.shape == L0h.shape and np.array_equal(x0, L0h),
              dict(det, init=spec['params']['init']))
    else:
      # pca / lda: same objective value (invariant to row signs/rotations
      # inside the subspace is not needed: pca rows are unique up to sign)
      if name in ('NCA', 'MLKR'):
        fh = fref(L0h.ravel())
        f0c = f0
      else:
        fh = ref(L0h)[0]
        f0c = f0
      j.close('C10.x0-is-documented-init', f0c, fh,
              1e-7 * max(abs(fh), 1e-3),
              dict(det, init=spec['params']['init']))
  if trace_pts >= 2 or spec['zero']:
    j.distinct(name, repr(sorted(spec['params'].items(), key=repr)),
               spec['ds']['seed'])
  if j.sample is None:
    j.sample = dict(det, evaluation_points=trace_pts,
                    f_at_x0=f0, f_at_result=fres)


LEVEL_TEXT = ('Exploration by runtime monitoring of the optimiser traces: '
              'every objective/gradient evaluation that scipy\'s L-BFGS '
              '(NCA, MLKR) or LMNN\'s own loop makes is intercepted and '
              'compared with an independent loop-level evaluation of the '
              'documented objective (value at every point, gradient by '
              'finite differences on a sample); an offline checker over the '
              'recorded trace decides descent from the documented '
              'initialisation, monotonicity of LMNN\'s accepted iterates, '
              'and the zero-iteration clause. Held on the executions in the '
              'evidence file.')
LEVEL_NOTE = ('The reference objectives are written from the documented '
              'formulas with explicit differences; finite differences are '
              'skipped near hinge kinks; target-neighbour ties are counted '
              'as inconclusive.')
TECHNIQUE = ('runtime monitoring: wrapped objective functions (event per '
             'optimiser evaluation) + reference-model oracle + offline trace '
             'checker')
