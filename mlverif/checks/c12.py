"""C12 -- LSML descends its convex objective from the prior to a stationary
point."""
import numpy as np

from .. import common, estimators as E
from ..core import rng_for, Quiet, fingerprint
from ..instrument import api

ID = 'C12'
LEVEL = 'exploration'
RULE = ('cases = {LSML, LSML_Supervised} x prior {identity, covariance, '
        'random, SPD array} x weights {None, positive array, list, int array, '
        'x1e-3, x1e3} x tol {1e-3, 1e-6} x max_iter {1, 5, 1000} x quadruplet '
        'sets (random, and sets already satisfied by the prior). The learned '
        'matrix is judged with an independent loop evaluation of the '
        'documented objective and its analytic gradient (cross-validated by '
        'finite differences inside the oracle): SPD, f(M) <= f(M0), prior '
        'returned when all constraints hold, ||grad f(M)||_F <= tol when the '
        'solver stopped before max_iter, invariance to the scale of the '
        'weights, caller\'s weights unmodified. An evaluation is one clause on '
        'one fit. distinct_nontrivial counts distinct (estimator, '
        'configuration, quadruplet set) with at least one violated constraint '
        'under the prior, or the satisfied-prior case.')
ASSUMPTIONS = ['results with an eigenvalue at the solver\'s 1e-8 '
               'floor are constrained optima and not judged for stationarity']
TIMEOUT = {'quick': 1200, 'thorough': 4 * 3600}
CASE_TIMEOUT = {'quick': 300, 'thorough': 1200}


_tr = []


def setup_worker(tier=None):
  common.setup_worker(tier)
  from metric_learn.lsml import _BaseLSML
  from ..instrument import names

  def grad_factory(orig):
    def wrapper(self, metric, *a, **k):
      g = orig(self, metric, *a, **k)
      _tr.append(('G', np.array(metric, dtype=float, copy=True),
                  np.array(g, dtype=float, copy=True)))
      return g
    return wrapper

  def loss_factory(orig):
    def wrapper(self, metric, *a, **k):
      v = orig(self, metric, *a, **k)
      _tr.append(('L', np.array(metric, dtype=float, copy=True), float(v)))
      return v
    return wrapper
  names.wrap_method(_BaseLSML, '_gradient', grad_factory)
  names.wrap_method(_BaseLSML, '_total_loss', loss_factory)


def _judge_line_search(j, trace, det):
  """Offline checker over the recorded solver events: every line-search
  candidate is the documented one - the current matrix moved along the
  gradient by one of ten log-spaced steps (relative to the gradient norm),
  with its eigenvalues floored at 1e-8 - and the next iterate is the
  candidate with the smallest loss that improved on the best so far."""
  steps = np.logspace(-10, 0, 10)
  best = None
  i, n_cand, n_clip = 0, 0, 0
  while i < len(trace) and trace[i][0] == 'L':
    best = trace[i][2]          # loss of the prior
    i += 1
  while i < len(trace):
    kind, M_, g_ = trace[i]
    if kind != 'G':
      i += 1
      continue
    cands = []
    i += 1
    while i < len(trace) and trace[i][0] == 'L':
      cands.append(trace[i])
      i += 1
    gn = np.sqrt((g_ ** 2).sum())
    if len(cands) > len(steps):
      j.violated('C12.candidates-follow-scheme',
                 dict(det, why='more candidates than step sizes',
                      n=len(cands)))
      return
    chosen, s_run = None, best
    for s_, (_, C_, val) in zip(steps, cands):
      T_ = M_ - (s_ / gn) * g_
      w_, V_ = np.linalg.eigh((T_ + T_.T) / 2)
      E_ = (V_ * np.maximum(w_, 1e-8)).dot(V_.T)
      n_cand += 1
      n_clip += int(w_.min() < 1e-8)
      sc = max(np.abs(E_).max(), 1e-300)
      # (eigenvectors of nearly equal eigenvalues on either side of the
      # floor are not determined; their contribution is bounded by the gap)
      # Judged by what characterises the documented candidate - the point of
      # {X : X >= 1e-8 I} nearest to the trial matrix T: R = C - T is positive
      # semi-definite and complementary to C - 1e-8 I.  (A comparison with
      # the harness's own eigen-decomposition is off by eps |T| / gap when
      # two eigenvalues of T nearly coincide: 1.7e-7 was seen, thorough tier.)
      Tn = max(np.abs(T_).max(), 1e-300)
      Cn = max(np.abs(C_).max(), 1e-8)
      R_ = C_ - (T_ + T_.T) / 2
      floor_ = C_ - 1e-8 * np.eye(len(C_))
      bad = None
      if np.abs(C_ - C_.T).max() > 1e-9 * Cn:
        bad = 'candidate not symmetric'
      elif np.linalg.eigvalsh((C_ + C_.T) / 2).min() < 1e-8 * (1 - 1e-6) - \
              1e-9 * Tn:
        bad = 'eigenvalue below the floor'
      elif np.linalg.eigvalsh((R_ + R_.T) / 2).min() < -1e-7 * Tn:
        bad = 'candidate minus trial matrix is not positive semi-definite'
      elif np.abs(R_.dot(floor_)).max() > 1e-7 * Tn * Cn:
        bad = 'not the nearest point of the cone (complementarity)'
      if bad:
        j.violated('C12.candidates-follow-scheme',
                   dict(det, step=float(s_), clipped=bool(w_.min() < 1e-8),
                        why=bad,
                        max_rel_dev=float(np.abs(C_ - E_).max() / sc)))
        return
      if s_run is not None and val < s_run:
        s_run, chosen = val, C_
    if chosen is not None and i < len(trace) and trace[i][0] == 'G':
      if not np.array_equal(trace[i][1], chosen):
        j.violated('C12.next-iterate-is-best-candidate',
                   dict(det, why='the matrix of the next iteration is not '
                        'the improving candidate with the smallest loss'))
        return
      j.ok('C12.next-iterate-is-best-candidate')
    best = s_run
  if n_cand:
    j.ok('C12.candidates-follow-scheme')
    j.count('line-search.candidates', n_cand)
    j.count('line-search.clipped-candidates', n_clip)


def cases(tier, seed):
  out = []
  q = tier == 'quick'
  n = 48 if q else 3000
  for i in range(n):
    r = rng_for('c12', seed, i)
    name = 'LSML_Supervised' if i % 4 == 3 else 'LSML'
    mode = 'satisfied' if (i % 8 == 5 and name == 'LSML') else 'random'
    p = {'prior': ['identity', 'covariance', 'random', '@spd'][(i // 2) % 4],
         'tol': [1e-3, 1e-3, 1e-6][i % 3],
         'max_iter': [1000, 1000, 5, 1000, 1][i % 5]}
    if mode == 'satisfied':
      # (i % 8 == 5 always lands on the same entry of the list above)
      p['prior'] = ['random', '@spd-ill', '@spd', 'covariance', 'identity',
                    '@spd-ill'][(i // 8) % 6]
    if name == 'LSML_Supervised':
      p['n_constraints'] = int(r.choice([8, 15, 30]))
    # (progress output is a configuration like any other: it must not
    # alter what is computed)
    if i % 5 == 2:
      p['verbose'] = True
    out.append({'est': name, 'params': p, 'mode': mode,
                'weights': [None, 'array', 'list', 'int', 'small', 'large']
                [i % 6],
                'ds': {'seed': int(r.randint(2**31 - 1)),
                       'd': int(r.randint(2, 5 if q else 6)),
                       'classes': int(r.randint(2, 4)),
                       # integer-typed data with fractional weights: the
                       # weights must not inherit the dtype of the data
                       'variant': 'int' if (i // 6) % 2 else 'plain',
                       'nmax': 40},
                'n_tuples': int(r.choice([8, 16, 30, 1, 2, 4, 6])),
                'seed': int(r.randint(1000))})
  return out


def required(tier):
  q = tier == 'quick'
  n = 30 if q else 400
  return {'C12.M-spd': n, 'C12.descent': n, 'C12.stationary': n // 3,
          'C12.satisfied-prior-returned': 2 if q else 30,
          'C12.weights-scale-invariant': n // 4,
          'C12.weights-unmodified': n // 2, 'C12.oracle-self-check': n,
          'C12.candidates-follow-scheme': n // 2}


# ------------------------------------------------------------------ oracle
def _below_resolution(M, G, gnorm, fM, vab, vcd, w, M0inv, j=None):
  """Largest decrease obtainable along -G (second-order bound using the
  curvature of the -logdet term only; the hinge term is convex and can only
  add curvature) compared with the rounding error of one objective
  evaluation (eps times the sum of the magnitudes of its terms)."""
  Minv = np.linalg.inv(M)
  curv = float(np.sum(Minv.dot(G) * (Minv.dot(G)).T))
  if not curv > 0:
    return False
  attainable = gnorm ** 4 / (2.0 * curv)
  scale = float(np.abs(M * M0inv.T).sum()) + \
      abs(float(np.linalg.slogdet(M)[1])) + abs(fM)
  ratio = attainable / (np.finfo(float).eps * max(scale, 1e-300))
  if j is not None:
    j.note('resolution ratio %.3g (gnorm %.3g)' % (ratio, gnorm))
  return ratio < 1e3


def objective(M, vab, vcd, w, M0inv):
  """sum_i w_i [sqrt(d_ab) - sqrt(d_cd)]_+^2 + tr(M M0^-1) - logdet M."""
  total = 0.0
  for i in range(len(vab)):
    dab = vab[i].dot(M).dot(vab[i])
    dcd = vcd[i].dot(M).dot(vcd[i])
    if dab > dcd:
      total += w[i] * (np.sqrt(dab) - np.sqrt(dcd)) ** 2
  sign, logdet = np.linalg.slogdet(M)
  if sign <= 0:
    return np.inf
  tr = 0.0
  d = M.shape[0]
  for a in range(d):
    for b in range(d):
      tr += M[a, b] * M0inv[b, a]
  return total + tr - logdet


def gradient(M, vab, vcd, w, M0inv):
  G = M0inv - np.linalg.inv(M)
  for i in range(len(vab)):
    dab = vab[i].dot(M).dot(vab[i])
    dcd = vcd[i].dot(M).dot(vcd[i])
    if dab > dcd and dcd > 0:
      G = G + w[i] * ((1 - np.sqrt(dcd / dab)) * np.outer(vab[i], vab[i]) +
                      (1 - np.sqrt(dab / dcd)) * np.outer(vcd[i], vcd[i]))
  return G


def run_case(spec, j):
  name = spec['est']
  ds = common.dataset(spec['ds'])
  X = np.asarray(ds['X'], dtype=float)
  d = ds['d']
  rng = rng_for('c12run', spec['ds']['seed'])
  f = common.build(spec, ds, use_fast=False)
  p = f.meta['params']
  seed = p['random_state']
  det = {'est': name, 'params': spec['params'], 'mode': spec['mode'],
         'weights': spec['weights'], 'd': d}
  if name == 'LSML':
    idx = f.meta['tuple_idx']
  else:
    from metric_learn.constraints import Constraints
    a, b, c, dd = Constraints(ds['y']).positive_negative_pairs(
        p['n_constraints'], same_length=True, random_state=seed)
    idx = np.column_stack([a, b, c, dd])
  if name == 'LSML' and len(idx) >= 3 and spec['ds']['seed'] % 3 == 0:
    # quadruplets (a, a, c, d): "d(a, a) <= d(c, d)" always holds, the
    # constraint is legal and carries its weight like any other
    idx = np.array(idx, copy=True)
    for k_ in range(1 + (len(idx) > 6)):
      idx[k_, 1] = idx[k_, 0]
  if name == 'LSML' and spec['weights'] is None and len(idx) >= 5:
    # a constraint listed k times weighs k / n
    idx = np.array(idx, copy=True)
    idx[2] = idx[0]
    idx[4] = idx[0]
  Q = X[idx]
  vab = Q[:, 0] - Q[:, 1]
  vcd = Q[:, 2] - Q[:, 3]
  pts = np.unique(Q.reshape(-1, d), axis=0)
  M0 = E.harness_prior(p['prior'], pts, d, seed)
  w0 = np.linalg.eigvalsh(M0)
  if w0.min() <= 1e-10 * w0.max():
    j.skip('C12', 'prior-not-strictly-pd')
    return
  M0inv = np.linalg.inv(M0)
  if spec['mode'] == 'satisfied':
    # orient every quadruplet so that d(a,b) <= d(c,d) under the prior
    dab = np.einsum('ij,jk,ik->i', vab, M0, vab)
    dcd = np.einsum('ij,jk,ik->i', vcd, M0, vcd)
    swap = dab > dcd
    idx = np.where(swap[:, None], idx[:, [2, 3, 0, 1]], idx)
    Q = X[idx]
    vab = Q[:, 0] - Q[:, 1]
    vcd = Q[:, 2] - Q[:, 3]
  nq = len(idx)
  # weights
  wkind = spec['weights']
  base = rng.uniform(0.2, 3.0, size=nq)
  if wkind is None:
    wgt = None
  elif wkind == 'array':
    wgt = base.copy()
  elif wkind == 'list':
    wgt = base.tolist()
  elif wkind == 'int':
    wgt = rng.randint(1, 6, size=nq)
  elif wkind == 'small':
    wgt = base * 1e-3
  else:
    wgt = base * 1e3
  wnorm = np.ones(nq) if wgt is None else np.asarray(wgt, dtype=float)
  wnorm = wnorm / wnorm.sum()
  fp_before = fingerprint(wgt)
  est = f.est
  api.set_judge(j, well_formed=True)
  del _tr[:]
  with Quiet():
    try:
      Xarg = ds['X']     # as generated: int64 for the 'int' variant, C or F
      if name == 'LSML':
        est.fit(np.asarray(Xarg)[idx], weights=wgt)
      else:
        est.set_params(weights=wgt)
        est.fit(Xarg, ds['y'])
    except Exception as e:
      api.set_well_formed(False)
      j.violated('C12.fit-returns', dict(det, raised=repr(e)[:300]),
                 mechanism='lsml-raised-' + type(e).__name__)
      return
  api.set_well_formed(False)
  trace_main = list(_tr)
  del _tr[:]
  _judge_line_search(j, trace_main, det)
  j.check('C12.weights-unmodified', fingerprint(wgt) == fp_before, det)
  M = est.get_mahalanobis_matrix()
  nM = max(np.abs(M).max(), 1e-300)
  lam = np.linalg.eigvalsh((M + M.T) / 2)
  if abs(lam.min()) <= 100 * np.finfo(float).eps * d * nM and \
          np.abs(M - M.T).max() <= 1e-9 * nM:
    # (below the rounding level of M = L'L definiteness is not decidable)
    j.skip('C12', 'metric-singular-to-rounding')
    return
  j.check('C12.M-spd', np.abs(M - M.T).max() <= 1e-9 * nM and lam.min() > 0,
          dict(det, lambda_min=lam.min()))
  if lam.min() <= 0:
    return
  Ms = (M + M.T) / 2
  # oracle self-check: analytic gradient vs finite differences at M
  G = gradient(Ms, vab, vcd, wnorm, M0inv)
  E1 = rng.randn(d, d)
  E1 = (E1 + E1.T) / 2
  h = 1e-6 * np.sqrt(lam.min() * lam.max()) / max(np.abs(E1).max(), 1e-300)
  h = min(h, 0.1 * lam.min() / np.linalg.norm(E1, 2))
  fd = (objective(Ms + h * E1, vab, vcd, wnorm, M0inv) -
        objective(Ms - h * E1, vab, vcd, wnorm, M0inv)) / (2 * h)
  an = float(np.sum(G * E1))
  fM = objective(Ms, vab, vcd, wnorm, M0inv)
  selfok = abs(fd - an) <= 1e-4 * max(abs(an), 1e-3) + \
      1e3 * np.finfo(float).eps * abs(fM) / h
  if not selfok:
    j.skip('C12', 'oracle-self-check-failed')
    j.note('oracle self check: fd=%r analytic=%r %s' % (fd, an, spec))
    return
  j.ok('C12.oracle-self-check')
  f0 = objective(M0, vab, vcd, wnorm, M0inv)
  j.check('C12.descent', fM <= f0 + 1e-12 * max(abs(f0), 1.0),
          dict(det, f_M=fM, f_prior=f0))
  gnorm = float(np.linalg.norm(G))
  n_iter = est.n_iter_
  dab0 = np.einsum('ij,jk,ik->i', vab, M0, vab)
  dcd0 = np.einsum('ij,jk,ik->i', vcd, M0, vcd)
  nviol0 = int((dab0 > dcd0).sum())
  if nviol0 == 0:
    j.check('C12.satisfied-prior-returned',
            np.abs(M - M0).max() <= 1e-9 * np.abs(M0).max() *
            max(1.0, 1e-3 * w0.max() / w0.min()),
            dict(det, maxdiff=np.abs(M - M0).max(), n_iter=n_iter))
  tol = p['tol']
  if n_iter < p['max_iter']:
    if lam.min() <= 2e-8:
      j.skip('C12.stationary', 'at-eigenvalue-floor')
    elif gnorm <= tol * (1 + 1e-6):
      j.ok('C12.stationary')
      j.margin('C12.stationary', gnorm / tol)
    elif _below_resolution(Ms, G, gnorm, fM, vab, vcd, wnorm, M0inv, j):
      # no step along -G can lower the objective by more than the rounding
      # error of evaluating it: "within tol" is not decidable here
      j.skip('C12.stationary', 'decrease-below-objective-resolution')
    else:
      j.violated('C12.stationary',
                 dict(det, grad_norm=gnorm, tol=tol, n_iter=n_iter,
                      max_iter=p['max_iter']))
  # invariance to the scale of the weights (they are normalised)
  if wgt is not None and spec['ds']['seed'] % 2 == 0:
    from sklearn.base import clone
    e2 = clone(est)
    w2 = np.asarray(wgt, dtype=float) * 37.0
    with Quiet():
      try:
        if name == 'LSML':
          e2.fit(Q, weights=w2)
        else:
          e2.set_params(weights=w2)
          e2.fit(X, ds['y'])
        # (the two descents may take different discrete line-search steps,
        # so the matrices agree only up to the solver tolerance: compare the
        # documented objective, which is flat to second order at the optimum)
        M2 = e2.get_mahalanobis_matrix()
        f2 = objective((M2 + M2.T) / 2, vab, vcd, wnorm, M0inv)
        if n_iter < p['max_iter'] and e2.n_iter_ < p['max_iter'] and \
                lam.min() > 2e-8:
          # both tol-stationary: f - f* <= |g|^2 / (2 mu), mu >= 1/lmax^2
          bound = 2 * (100 * tol) ** 2 * lam.max() ** 2 + \
              1e-9 * max(abs(fM), 1.0)
          j.close('C12.weights-scale-invariant', f2, fM, bound,
                  dict(det, f_M=fM, f_M2=f2))
        else:
          j.skip('C12.weights-scale-invariant', 'not-both-converged')
      except Exception as e:
        j.violated('C12.weights-scale-invariant',
                   dict(det, raised=repr(e)[:200]))
  if nviol0 > 0 or spec['mode'] == 'satisfied':
    j.distinct(name, repr(sorted(spec['params'].items(), key=repr)),
               spec['weights'], spec['mode'], spec['ds']['seed'])
  if j.sample is None and nviol0 > 0:
    j.sample = dict(det, n_quadruplets=nq, violated_under_prior=nviol0,
                    f_prior=f0, f_M=fM, grad_norm=gnorm, n_iter=n_iter)


LEVEL_TEXT = ('Exploration by runtime monitoring against a reference model: '
              'the matrix learned by the real LSML / LSML_Supervised is '
              'judged with an independent loop evaluation of the documented '
              'objective and of its analytic gradient (the two are '
              'cross-checked by finite differences on every case): '
              'positive definiteness, descent from the harness-recomputed '
              'prior, prior returned when all constraints hold, '
              'stationarity within tol on early stops (using the weighted '
              'gradient, so weights must drive the search direction), '
              'invariance to the weights\' scale, caller\'s weights '
              'untouched. Held on the executions in the evidence file.')
LEVEL_NOTE = ('Stationarity is not judged at the solver\'s eigenvalue floor '
              'nor, for tol <= 1e-5, within two orders of magnitude of tol '
              '(floating-point resolution of the line search); these are '
              'counted as inconclusive.')
TECHNIQUE = ('runtime monitoring: reference objective/gradient oracle on '
             'fitted state (self-validated by finite differences) + '
             'argument fingerprints')
