"""C07 -- constraints generated from labels respect the labels."""
import numpy as np

from .. import common
from ..core import rng_for, Quiet
from ..instrument import api, names

ID = 'C07'
LEVEL = 'exploration'
RULE = ('cases = batches of seeded label vectors (length 4..60, 1..5 known '
        'classes, 0-50% unknown (-1) labels at random positions, unbalanced '
        'and singleton classes) x n_constraints in {1,5,50,500} x same_length '
        'x n_chunks / chunk_size around the feasibility boundary x k_genuine, '
        'k_impostor in 1..6 x point sets with duplicates and equidistant '
        'neighbours x integer seeds. The three Constraints methods and '
        'wrap_pairs are wrapped (M-NAME); every call is judged against '
        'brute-force oracles on the caller\'s arrays. An evaluation is one '
        'clause judged on one call. distinct_nontrivial counts distinct '
        '(method, label vector, parameters) whose call returned at least one '
        'constraint or raised the documented ValueError.')
ASSUMPTIONS = ['neighbour ties are resolved arbitrarily by scikit-learn: the '
               'oracle accepts any k nearest set consistent with the '
               'distances (tolerance 1e-9 relative)']
TIMEOUT = {'quick': 900, 'thorough': 3 * 3600}

_log = []


def setup_worker(tier=None):
  common.setup_worker(tier)
  from metric_learn import constraints as C

  def fac(method):
    def factory(orig):
      def wrapper(self, *a, **k):
        _log.append((method, 'call'))
        return orig(self, *a, **k)
      return wrapper
    return factory
  for m in ('positive_negative_pairs', 'chunks', 'generate_knntriplets'):
    names.wrap_method(C.Constraints, m, fac(m))


def _draw_seed(rng):
  """An integer random_state: mostly arbitrary, one time in five a boundary
  value (0 is falsy; 2**32 - 2 leaves room for the harness's seed + 1)."""
  if rng.rand() < 0.2:
    return int(rng.choice([0, 0, 1, 2**32 - 2]))
  return int(rng.randint(0, 2**31 - 1))


def cases(tier, seed):
  n = 16 if tier == 'quick' else 800
  per = 20 if tier == 'quick' else 40
  return [{'batch': i, 'seed': seed, 'per': per} for i in range(n)]


def required(tier):
  n = 100 if tier == 'quick' else 2000
  return {'C07.pairs.positive': n, 'C07.pairs.negative': n,
          'C07.pairs.distinct': n, 'C07.pairs.count': n,
          'C07.pairs.warning': n, 'C07.pairs.same_length': n // 4,
          'C07.pairs.reproducible': n, 'C07.pairs.known-only': n,
          'C07.chunks.layout': n // 2, 'C07.chunks.infeasible-raises': 10,
          'C07.chunks.reproducible': n // 2,
          'C07.triplets.genuine': n // 2, 'C07.triplets.impostor': n // 2,
          'C07.triplets.complete': n // 2, 'C07.triplets.known-only': n // 2,
          'C07.wrap_pairs': n // 2, 'monitor.calls': n}


_form = [None]


def label_vector(rng):
  n = int(rng.randint(4, 61))
  c = int(rng.randint(1, 6))
  style = rng.randint(0, 4)
  if style == 0:      # balanced
    y = rng.randint(0, c, size=n)
  elif style == 1:    # unbalanced
    p = rng.dirichlet(np.ones(c) * 0.4)
    y = rng.choice(c, size=n, p=p)
  elif style == 2:    # many singletons + one or two real classes
    y = np.arange(n) + 10
    k = int(rng.randint(2, max(3, n // 2)))
    y[:k] = 0
    if rng.rand() < 0.5 and n - k > 3:
      y[k:k + 2] = 1
    y = y[rng.permutation(n)]
  else:               # non-contiguous label values
    y = rng.choice([3, 7, 20, 21, 100][:c], size=n)
  y = np.asarray(y, dtype=np.int64)
  frac = rng.choice([0.0, 0.1, 0.3, 0.5])
  unk = rng.rand(n) < frac
  # every negative label means "unknown" (-1 is only the customary marker)
  markers = [[-1], [-1, -2], [-7, -1, -3], [-5]][int(rng.randint(4))]
  y[unk] = rng.choice(markers, size=int(unk.sum()))
  return y


def run_case(spec, j):
  from metric_learn.constraints import Constraints, wrap_pairs
  api.set_judge(j)
  for t in range(spec['per']):
    rng = rng_for('c7', spec['seed'], spec['batch'], t)
    y = label_vector(rng)
    y0 = y.copy()
    # the same labels in another container / dtype (unsigned ones only when
    # there is no unknown label to represent)
    forms = ['int64', 'int32', 'int8', 'float64', 'list', 'readonly']
    if y.min() >= 0:
      forms += ['uint8', 'uint16', 'uint64']
    form = forms[int(rng.randint(len(forms)))]
    j.count('labels-as-' + form)

    def conv(lab, form=form):
      lab = np.asarray(lab)
      if form == 'list':
        return lab.tolist()
      if form == 'readonly':
        lab = lab.copy()
        lab.setflags(write=False)
        return lab
      return lab.astype(form)

    def C2(lab):
      return Constraints(conv(lab))
    _form[0] = form
    _pairs_case(j, C2, wrap_pairs, y, rng)
    _chunks_case(j, C2, y, rng)
    _triplets_case(j, C2, y, rng)
    if not np.array_equal(y, y0):
      j.violated('C07.labels-unmodified', {'y0': y0, 'y': y})
  j.ok('monitor.calls', len(_log))
  del _log[:]


def _pairs_case(j, Constraints, wrap_pairs, y, rng):
  known = y >= 0
  cls, cnt = np.unique(y[known], return_counts=True)
  has_pos = np.any(cnt >= 2)
  has_neg = len(cls) >= 2
  if not (has_pos and has_neg):
    j.count('pairs.out-of-domain')
    return
  nreq = int(rng.choice([1, 5, 50, 500]))
  same_length = bool(rng.rand() < 0.4)
  seed = _draw_seed(rng)
  det = {'y': y, 'n_constraints': nreq, 'same_length': same_length,
         'seed': seed}
  try:
    with Quiet() as q:
      a, b, c, d = Constraints(y).positive_negative_pairs(
          nreq, same_length=same_length, random_state=seed)
  except Exception as e:
    j.violated('C07.pairs.returns', dict(det, raised=repr(e)[:200]),
               mechanism='pairs-raised-' + type(e).__name__)
    return
  a, b, c, d = (np.asarray(v) for v in (a, b, c, d))
  ok_idx = all(v.ndim == 1 and (v.size == 0 or
                                (v.min() >= 0 and v.max() < len(y)))
               for v in (a, b, c, d)) and len(a) == len(b) and \
      len(c) == len(d)
  if not j.check('C07.pairs.indices', ok_idx, det):
    return
  j.check('C07.pairs.known-only',
          bool(np.all(y[a] >= 0) and np.all(y[b] >= 0) and np.all(y[c] >= 0)
               and np.all(y[d] >= 0)), det)
  j.check('C07.pairs.positive',
          bool(np.all(a != b) and np.all(y[a] == y[b])),
          dict(det, a=a, b=b))
  j.check('C07.pairs.negative', bool(np.all(y[c] != y[d])),
          dict(det, c=c, d=d))
  j.check('C07.pairs.distinct',
          len(set(zip(a.tolist(), b.tolist()))) == len(a) and
          len(set(zip(c.tolist(), d.tolist()))) == len(c), det)
  j.check('C07.pairs.count', len(a) <= nreq and len(c) <= nreq,
          dict(det, n_pos=len(a), n_neg=len(c)))
  if same_length:
    j.check('C07.pairs.same_length', len(a) == len(c),
            dict(det, n_pos=len(a), n_neg=len(c)))
  few = [w for w in q.w if 'Only generated' in str(w.message)]
  if same_length:
    expect = (min(len(a), len(c)) < nreq)
    j.check('C07.pairs.warning', (len(few) >= 1) == expect,
            dict(det, warnings=len(few), n_pos=len(a), n_neg=len(c)))
  else:
    expect = int(len(a) < nreq) + int(len(c) < nreq)
    j.check('C07.pairs.warning', len(few) == expect,
            dict(det, warnings=len(few), expected=expect))
  with Quiet():
    r2 = Constraints(y).positive_negative_pairs(
        nreq, same_length=same_length, random_state=seed)
    # a RandomState seeded alike, and a helper object that was already used
    # for other requests, must give the same constraints
    r3 = Constraints(y).positive_negative_pairs(
        nreq, same_length=same_length,
        random_state=np.random.RandomState(seed))
    cobj = Constraints(y)
    cobj.positive_negative_pairs(max(1, nreq // 2), random_state=seed + 1)
    try:
      cobj.chunks(n_chunks=1, chunk_size=1, random_state=seed)
    except ValueError:
      pass
    r4 = cobj.positive_negative_pairs(nreq, same_length=same_length,
                                      random_state=seed)
  j.check('C07.pairs.reproducible',
          all(np.array_equal(u, v) for u, v in zip((a, b, c, d), r2)), det)
  j.check('C07.pairs.reproducible',
          all(np.array_equal(u, v) for u, v in zip((a, b, c, d), r3)),
          dict(det, how='RandomState(seed) instead of seed'))
  j.check('C07.pairs.reproducible',
          all(np.array_equal(u, v) for u, v in zip((a, b, c, d), r4)),
          dict(det, how='helper object reused after other requests'))
  # wrap_pairs on caller-side points
  X = rng.randn(len(y), 3)
  pairs, lab = wrap_pairs(X, (a, b, c, d))
  okw = (pairs.shape == (len(a) + len(c), 2, 3) and
         np.array_equal(pairs[:len(a), 0], X[a]) and
         np.array_equal(pairs[:len(a), 1], X[b]) and
         np.array_equal(pairs[len(a):, 0], X[c]) and
         np.array_equal(pairs[len(a):, 1], X[d]) and
         np.array_equal(lab, np.r_[np.ones(len(a)), -np.ones(len(c))]))
  j.check('C07.wrap_pairs', okw, det)
  if len(a) + len(c) > 0:
    j.distinct('pairs', y.tobytes(), nreq, same_length, seed)
  if j.sample is None:
    j.sample = {'method': 'positive_negative_pairs', 'y': y,
                'n_constraints': nreq, 'same_length': same_length,
                'a': a[:5], 'b': b[:5], 'c': c[:5], 'd': d[:5],
                'warnings': len(few)}


def _chunks_case(j, Constraints, y, rng):
  known = y >= 0
  if not known.any():
    return
  cls, cnt = np.unique(y[known], return_counts=True)
  chunk_size = int(rng.choice([1, 2, 2, 3, 4]))
  feas = int(np.sum(cnt // chunk_size))
  n_chunks = int(max(1, feas + rng.choice([-3, -1, 0, 0, 1, 2])))
  seed = _draw_seed(rng)
  det = {'y': y, 'n_chunks': n_chunks, 'chunk_size': chunk_size,
         'feasible_max': feas, 'seed': seed}
  try:
    with Quiet():
      ch = Constraints(y).chunks(n_chunks=n_chunks, chunk_size=chunk_size,
                                 random_state=seed)
  except ValueError as e:
    j.check('C07.chunks.infeasible-raises', feas < n_chunks,
            dict(det, raised=str(e)[:100]))
    if feas < n_chunks:
      j.distinct('chunks-raise', y.tobytes(), n_chunks, chunk_size)
    return
  except Exception as e:
    j.violated('C07.chunks.layout', dict(det, raised=repr(e)[:200]),
               mechanism='chunks-raised-' + type(e).__name__)
    return
  if feas < n_chunks:
    j.violated('C07.chunks.infeasible-raises', dict(det, why='returned'))
    return
  ch = np.asarray(ch)
  ok = ch.shape == y.shape and np.all(ch[~known] == -1)
  ids = np.unique(ch[ch >= 0])
  ok = ok and np.array_equal(ids, np.arange(n_chunks)) and ch.min() >= -1
  for i in ids:
    mem = np.where(ch == i)[0]
    ok = ok and len(mem) == chunk_size and len(set(y[mem].tolist())) == 1 \
        and y[mem[0]] >= 0
  j.check('C07.chunks.layout', bool(ok), dict(det, chunks=ch))
  with Quiet():
    ch2 = Constraints(y).chunks(n_chunks=n_chunks, chunk_size=chunk_size,
                                random_state=seed)
  j.check('C07.chunks.reproducible', np.array_equal(ch, ch2), det)
  # ... also when one helper object is asked several times (the constraints
  # are a function of the labels, the parameters and the seed, not of what
  # the object was asked before)
  with Quiet():
    try:
      cobj = Constraints(y)
      cobj.chunks(n_chunks=n_chunks, chunk_size=chunk_size,
                  random_state=seed + 1)
      ch3 = cobj.chunks(n_chunks=n_chunks, chunk_size=chunk_size,
                        random_state=seed)
      j.check('C07.chunks.reproducible', np.array_equal(ch, ch3),
              dict(det, why='second request to the same Constraints object'))
    except Exception as e:
      j.violated('C07.chunks.reproducible',
                 dict(det, why='second request to the same Constraints '
                      'object raised', raised=repr(e)[:200]))
  j.distinct('chunks', y.tobytes(), n_chunks, chunk_size, seed)


def _triplets_case(j, Constraints, y, rng):
  known = y >= 0
  cls, cnt = np.unique(y[known], return_counts=True)
  if len(cls) < 2 or np.any(cnt < 2):
    j.count('triplets.out-of-domain')
    return
  n = len(y)
  d = int(rng.randint(1, 4))
  style = rng.randint(0, 3)
  if style == 0:
    X = rng.randn(n, d)
  elif style == 1:      # integer lattice: many equidistant neighbours
    X = rng.randint(-2, 3, size=(n, d)).astype(float)
  else:                 # exact duplicates
    X = rng.randn(n, d)
    dup = rng.randint(0, n, size=n // 3)
    X[dup] = X[rng.randint(0, n, size=n // 3)]
  kg = int(rng.randint(1, 7))
  ki = int(rng.randint(1, 7))
  det = {'y': y, 'k_genuine': kg, 'k_impostor': ki, 'style': int(style),
         'd': d}
  X0 = X.copy()
  try:
    with Quiet():
      T = Constraints(y).generate_knntriplets(X, kg, ki)
  except Exception as e:
    j.violated('C07.triplets.returns', dict(det, raised=repr(e)[:200]),
               mechanism='triplets-raised-' + type(e).__name__)
    return
  T = np.asarray(T)
  if not j.check('C07.triplets.indices',
                 T.ndim == 2 and T.shape[1] == 3 and
                 (T.size == 0 or (T.min() >= 0 and T.max() < n)),
                 dict(det, shape=T.shape)):
    return
  j.check('C07.triplets.X-unmodified', np.array_equal(X, X0), det)
  j.check('C07.triplets.known-only', bool(np.all(y[T] >= 0)),
          dict(det, bad=T[np.any(y[T] < 0, axis=1)][:3]))
  D2 = ((X[:, None, :] - X[None, :, :]) ** 2).sum(-1)
  ok_g = ok_i = ok_c = True
  why = None
  expected_total = 0
  rows = {}
  for t in T.tolist():
    rows.setdefault(t[0], []).append((t[1], t[2]))
  for a in np.where(known)[0]:
    same = np.where((y == y[a]) & (np.arange(n) != a))[0]
    other = np.where(known & (y != y[a]))[0]
    kga = min(kg, len(same))
    kia = min(ki, len(other))
    expected_total += kga * kia
    got = rows.get(int(a), [])
    Bs = sorted(set(b for b, _ in got))
    Cs = sorted(set(c for _, c in got))
    # completeness: exactly B x C, each once
    if len(got) != len(set(got)) or len(got) != len(Bs) * len(Cs) or \
            len(Bs) != kga or len(Cs) != kia:
      ok_c = False
      why = why or ('anchor %d: got %d triplets, |B|=%d (want %d), |C|=%d '
                    '(want %d)' % (a, len(got), len(Bs), kga, len(Cs), kia))
      continue
    for S, pool, kk, tag in ((Bs, same, kga, 'g'), (Cs, other, kia, 'i')):
      if not set(S) <= set(pool.tolist()):
        if tag == 'g':
          ok_g = False
        else:
          ok_i = False
        why = why or 'anchor %d: %s-set leaves its pool' % (a, tag)
        continue
      dist = np.sort(D2[a, pool])
      kth = dist[kk - 1]
      tol = 1e-9 * max(kth, 1e-300) + 1e-12
      good = (D2[a, S].max() <= kth + tol and
              all(p in S for p in pool[D2[a, pool] < kth - tol]))
      if not good:
        if tag == 'g':
          ok_g = False
        else:
          ok_i = False
        why = why or 'anchor %d: %s-set is not a k-nearest set' % (a, tag)
  j.check('C07.triplets.genuine', ok_g, dict(det, why=why))
  j.check('C07.triplets.impostor', ok_i, dict(det, why=why))
  j.check('C07.triplets.complete', ok_c and len(T) == expected_total,
          dict(det, why=why, n=len(T), expected=expected_total))
  with Quiet():
    T2 = Constraints(y).generate_knntriplets(X, kg, ki)
  j.check('C07.triplets.reproducible', np.array_equal(T, T2), det)
  if len(T):
    j.distinct('triplets', y.tobytes(), kg, ki, X.tobytes())


LEVEL_TEXT = ('Exploration by runtime monitoring: the real Constraints '
              'methods and wrap_pairs are called on thousands of seeded label '
              'vectors (unknown labels, unbalanced and singleton classes, '
              'feasibility boundaries, duplicate and equidistant points) and '
              'every returned constraint is judged by brute-force oracles '
              'that look labels and distances up in the caller\'s own arrays. '
              'Held on the executions in the evidence file.')
LEVEL_NOTE = ('Neighbour sets are judged tie-tolerantly (any k-nearest set '
              'consistent with the distances is accepted); "no pair is '
              'repeated" is read as: ordered pairs of one kind are pairwise '
              'distinct.')
TECHNIQUE = ('runtime monitoring: brute-force constraint-soundness oracle on '
             'the outputs of the wrapped Constraints methods under seeded '
             'hostile label vectors')
