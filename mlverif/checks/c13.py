"""C13 -- SDML minimises the documented sparse LogDet objective."""
import numpy as np

from .. import common, estimators as E
from ..core import rng_for, Quiet
from ..instrument import api

ID = 'C13'
LEVEL = 'exploration'
RULE = ('cases = {SDML, SDML_Supervised} x prior {identity, covariance, '
        'random, SPD array} x sparsity_param {1e-3, 1e-2, 0.1, 0.5} x '
        'balance_param chosen per instance inside (optimality clause) or '
        'outside (failure clause) the range that keeps the graphical-lasso '
        'input positive definite x seeded labelled pair sets. The learned M '
        'is judged against an independent ADMM solution of the documented '
        'objective with S recomputed from scratch by the harness; the call '
        'to the graphical-lasso solver is intercepted and the problem it is '
        'handed (matrix and penalty) compared with the documented one. An '
        'evaluation is one clause on one fit. distinct_nontrivial counts '
        'distinct (estimator, configuration, pair set) whose reference '
        'solver converged (primal/dual residual < 1e-9).')
ASSUMPTIONS = ['objective gap tolerance 3e-4*(1+|f|) (the wrapped '
               'scikit-learn solver stops at tol=1e-4); cases where the '
               'reference ADMM solver does not converge are inconclusive']
TIMEOUT = {'quick': 1200, 'thorough': 4 * 3600}
CASE_TIMEOUT = {'quick': 300, 'thorough': 900}


_cap = {'solver': []}


def setup_worker(tier=None):
  common.setup_worker(tier)
  from ..instrument import names
  import metric_learn.sdml as sdml_mod

  def factory(orig):
    def graphical_lasso(emp_cov, *a, **k):
      rec = {'emp_cov': np.array(emp_cov, copy=True),
             'alpha': k.get('alpha', a[0] if a else None), 'raised': None}
      _cap['solver'].append(rec)
      try:
        r = orig(emp_cov, *a, **k)
      except Exception as e:
        rec['raised'] = repr(e)[:200]
        raise
      inj = _cap.get('inject')
      if inj is not None:
        # failpoint: what a solver that gives up hands back
        P = np.array(r[1], dtype=float, copy=True)
        w_, V_ = np.linalg.eigh((P + P.T) / 2)
        if inj == 'nan':
          P[0, 0] = np.nan
        elif inj == 'inf':
          P[-1, -1] = np.inf
        elif inj == 'raise':
          rec['raised'] = 'FloatingPointError(injected)'
          raise FloatingPointError('injected: non SPD result')
        else:
          k_neg = {'indefinite-1': 1, 'indefinite-2': 2}[inj]
          w_[:min(k_neg, len(w_))] = -np.abs(w_[-1]) * 0.3
          P = (V_ * w_).dot(V_.T)
          P = (P + P.T) / 2
        r = (r[0], P) + tuple(r[2:])
        rec['injected'] = inj
      rec['precision'] = np.array(r[1], copy=True)
      return r
    return graphical_lasso
  if not getattr(sdml_mod, 'HAS_SKGGM', False):
    names.patch_name(sdml_mod, 'graphical_lasso', factory)


def cases(tier, seed):
  out = []
  q = tier == 'quick'
  n = 48 if q else 5000
  for i in range(n):
    r = rng_for('c13', seed, i)
    name = 'SDML_Supervised' if i % 4 == 3 else 'SDML'
    fail = (i % 6 == 5)
    p = {'prior': ['identity', 'covariance', 'random', '@spd'][(i // 2) % 4],
         'sparsity_param': [1e-3, 1e-2, 0.1, 0.5][(i // 3) % 4]}
    if name == 'SDML_Supervised':
      p['n_constraints'] = int(r.choice([10, 25, 40]))
    # (progress output is a configuration like any other: it must not
    # alter what is computed)
    if i % 5 == 2:
      p['verbose'] = True
    out.append({'est': name, 'params': p, 'fail': fail,
                'frac': float(r.uniform(0.2, 1.0) if not fail
                              else r.choice([1.5, 5.0, 50.0])),
                'ds': {'seed': int(r.randint(2**31 - 1)),
                       'd': int(r.randint(2, 5 if q else 8)),
                       'classes': int(r.randint(2, 4)), 'variant': 'plain',
                       'nmax': 48},
                'n_tuples': int(r.choice([16, 24, 40, 1, 1, 2, 3])),
                'seed': int(r.randint(1000))})
  # failure clause by fault injection: a positive definite documented input,
  # and a solver that hands back something that is not a finite SPD matrix
  kinds = ['nan', 'inf', 'indefinite-1', 'indefinite-2', 'raise']
  for i in range(10 if q else 200):
    r = rng_for('c13-inject', seed, i)
    out.append({'est': 'SDML_Supervised' if i % 4 == 3 else 'SDML',
                'params': dict({'prior': ['identity', 'covariance', 'random',
                                          '@spd'][i % 4],
                                'sparsity_param': [1e-2, 0.1][i % 2]},
                               **({'n_constraints': 25} if i % 4 == 3
                                  else {})),
                'fail': False, 'inject': kinds[i % len(kinds)],
                'frac': float(r.uniform(0.2, 0.8)),
                'ds': {'seed': int(r.randint(2**31 - 1)),
                       'd': int(r.randint(2, 6)),
                       'classes': int(r.randint(2, 4)), 'variant': 'plain',
                       'nmax': 48},
                'n_tuples': int(r.choice([16, 24, 40])),
                'seed': int(r.randint(1000))})
  # axis-aligned designs: every pair differs in a single coordinate and the
  # prior is diagonal, so the matrix handed to the solver is exactly diagonal
  # (one-factor-at-a-time experiments, grid data); penalties that are not
  # small against its entries
  for i in range(12 if q else 300):
    r = rng_for('c13-axis', seed, i)
    out.append({'est': 'SDML', 'fail': False, 'axis': True,
                'params': {'prior': ['identity', '@diag'][i % 2],
                           'sparsity_param': [0.1, 0.5, 1.0, 2.0][(i // 2) % 4]},
                'frac': float(r.uniform(0.2, 1.0)),
                'ds': {'seed': int(r.randint(2**31 - 1)),
                       'd': int(r.randint(2, 6)), 'classes': 2,
                       'variant': ['plain', 'int'][i % 3 == 2], 'nmax': 48},
                'n_tuples': int(r.choice([1, 2, 4, 8, 16])),
                'seed': int(r.randint(1000))})
  return out


def required(tier):
  q = tier == 'quick'
  n = 25 if q else 300
  return {'C13.M-spd': n, 'C13.objective-gap': n, 'C13.not-below-optimum': n,
          'C13.solver-input-documented': n,
          'C13.failure-clause': 4 if q else 50}


def objective(Theta, S, alpha):
  sign, logdet = np.linalg.slogdet(Theta)
  if sign <= 0:
    return np.inf
  off = np.abs(Theta).sum() - np.abs(np.diag(Theta)).sum()
  return float(np.sum(S * Theta) - logdet + alpha * off)


def admm_glasso(S, alpha, rho=1.0, iters=50000, tol=1e-11):
  d = S.shape[0]
  Z = np.diag(1.0 / np.maximum(np.diag(S), 1e-12))
  U = np.zeros((d, d))
  offmask = ~np.eye(d, dtype=bool)
  res = np.inf
  for it in range(iters):
    w, Q = np.linalg.eigh(rho * (Z - U) - S)
    th = (w + np.sqrt(w ** 2 + 4 * rho)) / (2 * rho)
    Theta = (Q * th).dot(Q.T)
    Zold = Z
    A = Theta + U
    Z = A.copy()
    Z[offmask] = np.sign(A[offmask]) * np.maximum(np.abs(A[offmask]) -
                                                  alpha / rho, 0.0)
    U = U + Theta - Z
    rp = np.abs(Theta - Z).max()
    rd = rho * np.abs(Z - Zold).max()
    res = max(rp, rd)
    if res < tol * max(1.0, np.abs(Z).max()):
      break
    # simple residual balancing
    if it % 50 == 49:
      if rp > 10 * rd:
        rho *= 2.0
        U = U / 2.0
      elif rd > 10 * rp:
        rho /= 2.0
        U = U * 2.0
  return Z, res / max(1.0, np.abs(Z).max())


def _judge_solver_input(j, call, S, alpha, det):
  """The graphical-lasso solver is handed the documented problem: the matrix
  M0^-1 + balance_param * sum_i y_i v_i v_i^T and the sparsity penalty."""
  E_ = np.asarray(call['emp_cov'], dtype=float)
  ws = np.linalg.eigvalsh((S + S.T) / 2)
  cond = np.abs(ws).max() / max(np.abs(ws).min(), 1e-300)
  ok_shape = E_.shape == S.shape
  j.check('C13.solver-input-documented',
          ok_shape and np.abs(E_ - S).max() <= 1e-9 * np.abs(S).max() *
          max(1.0, 1e-6 * cond) and call['alpha'] == alpha,
          dict(det, max_diff=float(np.abs(E_ - S).max()) if ok_shape
               else 'shape', alpha_given=call['alpha'], alpha_documented=alpha))


def run_case(spec, j):
  name = spec['est']
  ds = common.dataset(spec['ds'])
  X = np.asarray(ds['X'], dtype=float)
  d = ds['d']
  if spec.get('axis') and spec['params'].get('prior') == '@diag':
    rd = rng_for('c13-diag', spec['ds']['seed'])
    spec = dict(spec, params=dict(
        spec['params'], prior=np.diag(np.exp(rd.uniform(-1.0, 1.0, size=d)))))
  f = common.build(spec, ds, use_fast=False, sdml_frac=0.5)
  p = f.meta['params']
  seed = p['random_state']
  if name == 'SDML':
    idx, lab = f.meta['tuple_idx'], np.asarray(f.meta['tuple_labels'], float)
  else:
    from metric_learn.constraints import Constraints
    a, b, c, dd = Constraints(ds['y']).positive_negative_pairs(
        p['n_constraints'], random_state=seed)
    idx = np.vstack([np.column_stack([a, b]), np.column_stack([c, dd])])
    lab = np.r_[np.ones(len(a)), -np.ones(len(c))]
  fit_args = f.args
  if name == 'SDML' and len(idx) >= 4 and (
          (isinstance(p['prior'], str) and p['prior'] == 'covariance') or
          spec['ds']['seed'] % 3 == 0):
    # the same point written twice, once with 0.0 and once with -0.0 in a
    # coordinate: equal numbers (one point for the 'covariance' prior),
    # different bytes
    idx = np.array(idx, copy=True)
    for t_ in range(min(3, len(idx) // 2)):
      i0 = int(idx[t_, 0])
      k0 = int((spec['ds']['seed'] + t_) % d)
      X = np.vstack([X, X[i0][None]])
      X[i0, k0] = 0.0
      X[-1, k0] = -0.0
      jn = len(X) - 1
      occ = np.argwhere(idx == i0)
      for r_, c_ in occ[1::2]:
        idx[r_, c_] = jn
      if not (idx == jn).any() and idx[-1 - t_, 1] != i0:
        idx[-1 - t_, 0] = jn
    fit_args = (X[idx],) + tuple(f.args[1:])
  if spec.get('axis'):
    # second member of every pair = first member moved along one axis
    ra = rng_for('c13-axis-pairs', spec['ds']['seed'], spec['seed'])
    first = X[idx[:, 0]]
    second = first.copy()
    ax = ra.randint(0, d, size=len(idx))
    step = np.round(ra.uniform(0.5, 2.0, size=len(idx)) * 4) / 4 * \
        ra.choice([-1.0, 1.0], size=len(idx))
    second[np.arange(len(idx)), ax] += step
    X = np.vstack([first, second])
    idx = np.column_stack([np.arange(len(first)),
                           len(first) + np.arange(len(first))])
    fit_args = (X[idx],) + tuple(f.args[1:])
    j.count('axis-aligned-designs')
  V = X[idx[:, 0]] - X[idx[:, 1]]
  pts = np.unique(X[idx].reshape(-1, d), axis=0)
  M0 = E.harness_prior(p['prior'], pts, d, seed)
  w0 = np.linalg.eigvalsh(M0)
  if w0.min() <= 1e-10 * w0.max():
    j.skip('C13', 'prior-not-strictly-pd')
    return
  M0inv = np.linalg.inv(M0)
  Lm = np.zeros((d, d))
  for i in range(len(V)):
    Lm += lab[i] * np.outer(V[i], V[i])
  bmax = E.sdml_bmax(M0inv, V, lab)
  if spec['fail']:
    if not np.isfinite(bmax):
      j.skip('C13.failure-clause', 'loss-matrix-is-psd')
      return
    b = float(spec['frac'] * bmax)
  else:
    b = float(spec['frac'] * min(0.5, 0.5 * bmax))
  alpha = p['sparsity_param']
  est = f.est.set_params(balance_param=b)
  det = {'est': name, 'params': spec['params'], 'balance_param': b,
         'bmax': bmax, 'd': d, 'fail_clause': spec['fail']}
  api.set_judge(j, well_formed=not spec['fail'] and not spec.get('inject'))
  del _cap['solver'][:]
  _cap['inject'] = spec.get('inject')
  raised = None
  with Quiet() as q:
    try:
      est.fit(*fit_args)
    except Exception as e:
      raised = e
  api.set_well_formed(False)
  _cap['inject'] = None
  not_converged = any('did not converge' in str(w.message) for w in q.w)
  if spec.get('inject'):
    calls = list(_cap['solver'])
    if len(calls) != 1 or (calls[0].get('injected') != spec['inject'] and
                           spec['inject'] != 'raise'):
      j.skip('C13.failure-clause', 'failpoint-not-reached')
      return
    # the solver "could not produce a finite SPD matrix": fit must raise
    # RuntimeError, neither return a model nor fail in some other way
    j.check('C13.failure-clause', type(raised) is RuntimeError,
            dict(det, injected=spec['inject'],
                 outcome=repr(raised)[:200] if raised is not None
                 else 'returned a model'),
            mechanism='solver-failure-not-reported-as-RuntimeError')
    j.distinct(name, 'inject', spec['inject'], spec['ds']['seed'])
    return
  if spec['fail']:
    if raised is not None:
      j.check('C13.failure-clause', type(raised) is RuntimeError,
              dict(det, raised=repr(raised)[:200]))
    else:
      M = est.get_mahalanobis_matrix()
      lam = np.linalg.eigvalsh((M + M.T) / 2)
      j.check('C13.failure-clause', bool(np.all(np.isfinite(M))) and
              lam.min() > -1e-10 * max(np.abs(M).max(), 1e-300),
              dict(det, lambda_min=lam.min(), why='returned'))
    j.distinct(name, 'fail', repr(sorted(spec['params'].items(), key=repr)),
               spec['ds']['seed'])
    return
  if raised is not None:
    if isinstance(raised, RuntimeError) and 'graphical' in str(raised):
      # allowed by the property ("when the solver cannot produce a finite
      # SPD matrix fit raises RuntimeError") - provided the solver was handed
      # the documented problem and it was the solver that failed
      S = M0inv + b * Lm
      calls = list(_cap['solver'])
      if len(calls) != 1:
        j.skip('C13', 'solver-call-not-observed')
      else:
        _judge_solver_input(j, calls[0], S, alpha, det)
        c0 = calls[0]
        gave_up = c0['raised'] is not None
        if not gave_up:
          P = c0['precision']
          wp = np.linalg.eigvalsh((P + P.T) / 2) if np.all(np.isfinite(P)) \
              else np.array([np.nan])
          gave_up = not (np.all(np.isfinite(P)) and wp.min() >= 0)
        # (a RuntimeError although the solver returned a finite SPD matrix
        # would be SDML's own doing)
        j.check('C13.solves-pd-input', gave_up,
                dict(det, solver_raised=c0['raised'],
                     raised=str(raised)[-200:]),
                mechanism='sdml-raised-although-solver-succeeded')
        if gave_up:
          j.skip('C13', 'solver-gave-up-RuntimeError')
          j.ok('C13.failure-clause')
    else:
      j.violated('C13.fit-returns', dict(det, raised=repr(raised)[:300]),
                 mechanism='sdml-raised-' + type(raised).__name__)
    return
  M = est.get_mahalanobis_matrix()
  nM = max(np.abs(M).max(), 1e-300)
  lam = np.linalg.eigvalsh((M + M.T) / 2)
  j.ok('C13.solves-pd-input')
  if len(_cap['solver']) == 1:
    _judge_solver_input(j, _cap['solver'][0], M0inv + b * Lm, alpha, det)
  if np.all(np.isfinite(M)) and np.abs(M - M.T).max() <= 1e-9 * nM and \
          abs(lam.min()) <= 100 * np.finfo(float).eps * d * nM:
    # (below the rounding level of M = L'L definiteness is not decidable)
    j.skip('C13', 'metric-singular-to-rounding')
    return
  j.check('C13.M-spd', bool(np.all(np.isfinite(M))) and
          np.abs(M - M.T).max() <= 1e-9 * nM and lam.min() > 0,
          dict(det, lambda_min=lam.min()))
  if lam.min() <= 0:
    return
  S = M0inv + b * Lm
  S = (S + S.T) / 2
  Theta, res = admm_glasso(S, alpha)
  if res > 1e-9:
    j.skip('C13', 'reference-solver-not-converged')
    return
  fM = objective((M + M.T) / 2, S, alpha)
  fT = objective(Theta, S, alpha)
  if not_converged:
    # scikit-learn's graphical lasso ran out of its (default) iteration
    # budget and said so: "within solver tolerance" presupposes convergence
    j.skip('C13.objective-gap', 'wrapped-solver-reported-non-convergence')
    j.margin('C13.gap-when-not-converged(reported)',
             abs(fM - fT) / (1e-3 * (1 + abs(fT))))
    return
  j.close('C13.objective-gap', fM, fT, 3e-4 * (1 + abs(fT)),
          dict(det, f_M=fM, f_ref=fT))
  j.margin('C13.absolute-gap(reported)', abs(fM - fT))
  if fM < fT - 1e-7 * (1 + abs(fT)):
    # the oracle itself is refuted: never a verdict about the code
    j.skip('C13.not-below-optimum', 'reference-not-optimal')
  else:
    j.ok('C13.not-below-optimum')
  # KKT sub-gradient residual of M (reported only)
  G = S - np.linalg.inv((M + M.T) / 2)
  off = ~np.eye(d, dtype=bool)
  nz = off & (np.abs(M) > 1e-8 * nM)
  r1 = np.abs(np.diag(G)).max()
  r2 = np.abs(G[nz] + alpha * np.sign(M[nz])).max() if nz.any() else 0.0
  r3 = max(0.0, (np.abs(G[off & ~nz]) - alpha).max()) if (off & ~nz).any() \
      else 0.0
  j.margin('C13.kkt-residual(reported)', max(r1, r2, r3))
  j.distinct(name, repr(sorted(spec['params'].items(), key=repr)),
             spec['ds']['seed'])
  if j.sample is None:
    j.sample = dict(det, f_M=fM, f_reference=fT,
                    zeros_in_M=int((~nz & off).sum()),
                    kkt_residual=max(r1, r2, r3))


LEVEL_TEXT = ('Exploration by runtime monitoring against an independent '
              'solver: for each fit of the real SDML / SDML_Supervised the '
              'harness rebuilds the graphical-lasso input S from the '
              'documented formula (prior recomputed independently), solves '
              'the documented objective with its own ADMM solver to 1e-11 and '
              'compares objective values; outside the positive-definite '
              'range the exception type / returned matrix of the failure '
              'clause is observed. Held on the executions in the evidence '
              'file.')
LEVEL_NOTE = ('A reference that is beaten by the implementation, or that '
              'does not converge, makes the case inconclusive, never a '
              'violation.')
TECHNIQUE = ('runtime monitoring: reference-solver oracle (independent ADMM '
             'graphical lasso) on fitted state + exception-type oracle for '
             'the failure clause')
