"""C15 -- SCML learns a non-negative combination of its basis by the
documented scheme."""
import numpy as np

from .. import common
from ..core import rng_for, Quiet
from ..instrument import api, names

ID = 'C15'
LEVEL = 'exploration'
RULE = ('cases = {SCML, SCML_Supervised} x basis {triplet_diffs, lda '
        '(supervised), array} x n_basis x beta {1e-5, 1e-2, 0.5} x gamma '
        '{5e-3, 0.1, 1} x batch_size {1, 5, 10} x max_iter {50, 300} x '
        'output_iter {7, 50, max_iter} x integer seeds x triplet sets. The '
        'basis and weights handed to the components builder and the '
        'triplets handed to the solver are captured by wrapped methods (for '
        'SCML_Supervised they are compared with a brute-force construction '
        'of the documented k_genuine x k_impostor neighbour triplets); a '
        'reference model re-executes the documented stochastic dual '
        'averaging sequentially with the same random draws on distance '
        'differences computed directly from the formed triplets, evaluating '
        'the regularised hinge objective at every checkpoint. An evaluation '
        'is one clause on one fit. distinct_nontrivial counts distinct '
        '(estimator, configuration, triplet set) with at least one active '
        'basis element and no chaos-guard hit.')
ASSUMPTIONS = ['chaos guard: a case is inconclusive when a hinge argument of '
               'the reference run comes within 1e-9 of zero or two checkpoint '
               'objectives are within 1e-12 (active-set / argmin flips by '
               'rounding)']
TIMEOUT = {'quick': 1200, 'thorough': 4 * 3600}
CASE_TIMEOUT = {'quick': 300, 'thorough': 900}
_cap = {'cbw': [], 'fit': [], 'gen': []}


def setup_worker(tier=None):
  common.setup_worker(tier)
  from metric_learn.scml import _BaseSCML, SCML_Supervised

  def cbw_factory(orig):
    def wrapper(self, basis, w):
      r = orig(self, basis, w)
      _cap['cbw'].append((np.array(basis, copy=True), np.array(w, copy=True),
                          np.array(r, copy=True)))
      return r
    return wrapper
  names.wrap_method(_BaseSCML, '_components_from_basis_weights', cbw_factory)

  def fit_factory(orig):
    def wrapper(self, triplets, basis=None, n_basis=None):
      _cap['fit'].append(np.array(triplets, copy=True))
      return orig(self, triplets, basis, n_basis)
    return wrapper
  names.wrap_method(_BaseSCML, '_fit', fit_factory)

  def gen_factory(tag):
    def factory(orig):
      def wrapper(self, *a):
        r = orig(self, *a)
        _cap['gen'].append((tag, np.array(r[0], copy=True), r[1]))
        return r
      return wrapper
    return factory
  names.wrap_method(_BaseSCML, '_generate_bases_dist_diff',
                    gen_factory('triplet_diffs'))
  names.wrap_method(SCML_Supervised, '_generate_bases_LDA',
                    gen_factory('lda'))


def cases(tier, seed):
  out = []
  q = tier == 'quick'
  n = 48 if q else 6000
  for i in range(n):
    r = rng_for('c15', seed, i)
    sup = (i % 3 == 2)
    d = int(r.randint(2, 5 if q else 7))
    mi = [50, 300][i % 2]
    p = {'beta': [1e-5, 1e-2, 0.5][(i // 2) % 3],
         'gamma': [5e-3, 0.1, 1.0][(i // 3) % 3],
         'batch_size': [1, 5, 10][(i // 4) % 3], 'max_iter': mi,
         'output_iter': [7, 50, mi][(i // 5) % 3],
         'n_basis': [d, 2 * d, 15, None][(i // 2) % 4]}
    if sup:
      p['basis'] = ['lda', 'triplet_diffs', '@basis'][(i // 3) % 3]
      p['k_genuine'] = int(r.randint(1, 4))
      p['k_impostor'] = int(r.randint(1, 5))
    else:
      p['basis'] = ['triplet_diffs', '@basis'][(i // 3) % 2]
    if p['basis'] == '@basis' and p['n_basis'] is None:
      p['n_basis'] = 3 * d
    # (progress output is a configuration like any other: it must not
    # alter what is computed)
    if i % 5 == 2:
      p['verbose'] = True
    out.append({'est': 'SCML_Supervised' if sup else 'SCML', 'params': p,
                'ds': {'seed': int(r.randint(2**31 - 1)), 'd': d,
                       'classes': int(r.randint(2, 4)), 'variant': 'plain',
                       'nmax': 40},
                'n_tuples': int(r.choice([12, 25, 40, 0, 1]) + d),
                'seed': int(r.randint(1000))})
  # fewer bases than one region's discriminant directions (n_basis <
  # min(n_classes - 1, n_features)): legal, with a warning about poor
  # discriminative power
  for i in range(8 if q else 120):
    r = rng_for('c15-few-bases', seed, i)
    d = int(r.randint(3, 6))
    out.append({'est': 'SCML_Supervised',
                'params': {'basis': 'lda', 'n_basis': int(1 + i % 2),
                           'beta': 1e-5, 'gamma': 5e-3, 'batch_size': 10,
                           'max_iter': 100, 'output_iter': 50,
                           'k_genuine': 2, 'k_impostor': 3},
                'ds': {'seed': int(r.randint(2**31 - 1)), 'd': d,
                       'classes': 4, 'variant': 'plain', 'nmax': 48},
                'n_tuples': None, 'seed': int(r.randint(1000))})
  # runs that diverge (small gamma = large steps, on noisy triplets): the objective
  # is lowest early, so anything that evaluates outside the documented
  # checkpoints changes the selected weights
  for i in range(72 if q else 800):
    r = rng_for('c15-diverge', seed, i)
    d = int(r.randint(2, 5))
    out.append({'est': 'SCML',
                'params': {'basis': '@basis', 'n_basis': 2 * d,
                           'beta': 1e-5, 'gamma': [5e-3, 1e-3, 1e-4][i % 3],
                           'batch_size': [5, 10][i % 2], 'max_iter': 100,
                           'output_iter': [50, 7, 100, 33][(i // 2) % 4],
                           'verbose': bool(i % 6 != 5)},
                'ds': {'seed': int(r.randint(2**31 - 1)), 'd': d,
                       'classes': 2, 'variant': 'plain', 'nmax': 40},
                'noisy_triplets': True,
                'n_tuples': int(r.choice([20, 40])),
                'seed': int(r.randint(1000))})
  # the smallest legal training sets (n_triplets == n_features, + 1): the
  # generated bases are linearly dependent, the learned matrix rank deficient
  for i in range(60 if q else 1500):
    r = rng_for('c15-tiny', seed, i)
    d = int(r.randint(2, 5 if q else 7))
    out.append({'est': 'SCML',
                'params': {'basis': 'triplet_diffs', 'n_basis': None,
                           'beta': [1e-5, 1e-2][i % 2],
                           'gamma': [5e-3, 0.1, 1.0][i % 3],
                           'batch_size': [5, 10, 1][(i // 2) % 3],
                           'max_iter': [50, 300][(i // 3) % 2],
                           'output_iter': [7, 50][(i // 6) % 2]},
                'ds': {'seed': int(r.randint(2**31 - 1)), 'd': d,
                       'classes': int(r.randint(2, 4)), 'variant': 'plain',
                       'nmax': 40},
                'n_tuples': d + int(i % 2),
                'seed': int(r.randint(1000))})
  return out


def required(tier):
  q = tier == 'quick'
  n = 25 if q else 350
  return {'C15.captured': n, 'C15.weights-match-scheme': n,
          'C15.weights-nonneg': n, 'C15.M-is-combination': n, 'C15.psd': n,
          'C15.rows-and-warning': n, 'C15.generated-basis': n // 2,
          'C15.supervised-triplets': n // 4}


def reference_weights(T, basis, p, seed):
  """Sequential re-execution of the documented dual averaging scheme."""
  n_t = len(T)
  nb = len(basis)
  dd = np.zeros((n_t, nb))
  for t in range(n_t):
    ab = T[t, 0] - T[t, 1]
    ac = T[t, 0] - T[t, 2]
    for k in range(nb):
      dd[t, k] = basis[k].dot(ab) ** 2 - basis[k].dot(ac) ** 2
  draws = np.random.RandomState(seed).randint(
      0, n_t, size=(p['max_iter'], p['batch_size']))
  w = np.zeros(nb)
  avg = np.zeros(nb)
  ada = np.zeros(nb)
  delta = 0.001
  best, best_w = np.inf, None
  nearest = np.inf
  objs = []
  for it in range(p['max_iter']):
    g = np.zeros(nb)
    for t in draws[it]:
      s = 1.0 + dd[t].dot(w)
      nearest = min(nearest, abs(s))
      if s > 0:
        g += dd[t]
    g /= p['batch_size']
    avg = (it * avg + g) / (it + 1)
    ada = np.sqrt(ada ** 2 + g ** 2)
    scale = -(it + 1) / (p['gamma'] * (delta + ada))
    w = scale * np.minimum(avg + p['beta'], 0.0)
    if (it + 1) % p['output_iter'] == 0:
      sl = 1.0 + dd.dot(w)
      nearest = min(nearest, float(np.abs(sl).min()))
      obj = p['beta'] * w.sum() + sl[sl > 0].sum() / n_t
      objs.append(obj)
      if obj < best:
        best, best_w = obj, w.copy()
  objs = np.sort(objs)
  tie = len(objs) > 1 and bool(np.any(np.diff(objs) <= 1e-12 *
                                      max(abs(objs[0]), 1.0)))
  return best_w, nearest, tie


def _documented_triplets(j, T, X, y, kg, ki, det):
  """The triplets SCML_Supervised solves for are the documented ones: every
  point with its k_genuine nearest same-class points and its k_impostor
  nearest points of other classes (brute force; ties at a selection boundary
  make the set ambiguous and are skipped)."""
  if len(np.unique(X, axis=0)) != len(X):
    j.skip('C15.supervised-triplets', 'duplicate-rows')
    return
  index = {X[i].tobytes(): i for i in range(len(X))}
  try:
    got = set((index[t[0].tobytes()], index[t[1].tobytes()],
               index[t[2].tobytes()]) for t in T)
  except KeyError:
    j.violated('C15.supervised-triplets',
               dict(det, why='a triplet holds a point that is not a row of X'))
    return
  want = set()
  D2 = ((X[:, None, :] - X[None, :, :]) ** 2).sum(-1)
  for a in range(len(X)):
    if y[a] < 0:
      continue
    same = np.where((y == y[a]) & (np.arange(len(X)) != a))[0]
    other = np.where((y != y[a]) & (y >= 0))[0]
    gs = same[np.argsort(D2[a, same], kind='stable')]
    os_ = other[np.argsort(D2[a, other], kind='stable')]
    kg_, ki_ = min(kg, len(gs)), min(ki, len(os_))
    for arr, k_ in ((gs, kg_), (os_, ki_)):
      if k_ < len(arr) and D2[a, arr[k_ - 1]] >= D2[a, arr[k_]] * (1 - 1e-12):
        j.skip('C15.supervised-triplets', 'neighbour-tie')
        return
    for b in gs[:kg_]:
      for c in os_[:ki_]:
        want.add((a, int(b), int(c)))
  j.check('C15.supervised-triplets', got == want,
          dict(det, n_got=len(got), n_documented=len(want),
               missing=sorted(want - got)[:3], extra=sorted(got - want)[:3]))


def run_case(spec, j):
  name = spec['est']
  ds = common.dataset(spec['ds'])
  d = ds['d']
  if spec.get('noisy_triplets'):
    # triplets that contradict the labels half of the time
    ds = dict(ds, y=rng_for('c15-noise', spec['ds']['seed']).permutation(
        np.asarray(ds['y'])))
  f = common.build(spec, ds, use_fast=False)
  p = f.meta['params']
  for k in _cap:
    del _cap[k][:]
  det = {'est': name, 'params': spec['params'], 'd': d}
  api.set_judge(j, well_formed=True)
  with Quiet() as q:
    try:
      f.fit()
    except Exception as e:
      api.set_well_formed(False)
      j.violated('C15.fit-returns', dict(det, raised=repr(e)[:300]),
                 mechanism='scml-raised-' + type(e).__name__)
      return
  api.set_well_formed(False)
  est = f.est
  if len(_cap['cbw']) != 1 or len(_cap['fit']) != 1:
    j.skip('C15', 'solver-steps-not-captured')
    return
  j.ok('C15.captured')
  basis, w, Lret = _cap['cbw'][0]
  w = np.asarray(w, dtype=float).ravel()
  T = np.asarray(_cap['fit'][0], dtype=float)
  if T.ndim != 3:
    j.skip('C15', 'triplets-not-formed')
    return
  if name == 'SCML_Supervised':
    _documented_triplets(j, T, np.asarray(ds['X'], dtype=float),
                         np.asarray(ds['y']), p['k_genuine'],
                         p['k_impostor'], det)
  # generated bases: n_basis unit-norm rows
  for tag, B, nb in _cap['gen']:
    want = p['n_basis']
    okn = (B.shape[0] == nb and (want is None or nb == want) and
           B.shape[1] == d)
    norms = np.linalg.norm(B, axis=1)
    j.check('C15.generated-basis',
            okn and bool(np.all(np.abs(norms - 1) <= 1e-12)),
            dict(det, kind=tag, shape=B.shape, n_basis=nb,
                 worst_norm_dev=float(np.abs(norms - 1).max())))
  if isinstance(p['basis'], np.ndarray):
    j.check('C15.array-basis-used', np.array_equal(basis, p['basis']), det)
  j.check('C15.weights-nonneg', bool(np.all(w >= 0)),
          dict(det, min_w=w.min()))
  M = est.get_mahalanobis_matrix()
  Mref = np.zeros((d, d))
  for k in range(len(basis)):
    if w[k] != 0:
      Mref += w[k] * np.outer(basis[k], basis[k])
  sc = max(np.abs(Mref).max(), 1e-300)
  j.close('C15.M-is-combination', M, Mref, 1e-10 * sc, det)
  lam = np.linalg.eigvalsh((M + M.T) / 2)
  j.check('C15.psd', lam.min() >= -1e-10 * max(np.abs(M).max(), 1e-300),
          dict(det, lambda_min=lam.min()))
  active = int((w > 0).sum())
  k_rows = est.components_.shape[0]
  lowrank_w = [x for x in q.w if 'nonzero weight is less' in str(x.message)]
  if active < d:
    j.check('C15.rows-and-warning', k_rows == active and len(lowrank_w) == 1,
            dict(det, rows=k_rows, active=active, warnings=len(lowrank_w)))
  else:
    j.check('C15.rows-and-warning', k_rows == d and len(lowrank_w) == 0,
            dict(det, rows=k_rows, active=active, warnings=len(lowrank_w)))
  # the weights are those of the documented scheme
  wref, nearest, tie = reference_weights(T, basis, p, p['random_state'])
  if wref is None:
    j.skip('C15.weights-match-scheme', 'no-finite-checkpoint')
    return
  if nearest < 1e-9 or tie:
    j.skip('C15.weights-match-scheme', 'chaos-guard')
    return
  j.close('C15.weights-match-scheme', w, wref,
          1e-9 * max(np.abs(wref).max(), 1e-300) + 1e-300, det)
  if active > 0:
    j.distinct(name, repr(sorted(spec['params'].items(), key=repr)),
               spec['ds']['seed'])
  if j.sample is None:
    j.sample = dict(det, n_triplets=len(T), n_basis=len(basis),
                    active=active, rows=k_rows,
                    weights_head=w[:6], reference_head=wref[:6])


LEVEL_TEXT = ('Exploration by runtime monitoring against an executable '
              'reference model: the basis, the weights and the triplets the '
              'real SCML solver worked with are captured by wrapped methods, '
              'the documented dual-averaging scheme is re-executed '
              'sequentially with the same random draws (distance differences '
              'recomputed from the formed triplets) and the weights at the '
              'best checkpoint are compared (1e-9 relative); M = sum w_k b_k '
              'b_k^T, w >= 0, PSD, row count and low-rank warning, and unit-'
              'norm generated bases are judged on the same captures. Held on '
              'the executions in the evidence file.')
LEVEL_NOTE = ('Chaos guard makes cases inconclusive where rounding could '
              'flip an active set or the arg-min over checkpoints.')
TECHNIQUE = ('runtime monitoring: wrapped solver steps (basis, weights, '
             'triplets) + sequential reference-model re-execution with the '
             'same random draws')
