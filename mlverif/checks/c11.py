"""C11 -- ITML returns the optimum of its LogDet program (KKT certificate)."""
import os

import numpy as np

from .. import common, estimators as E
from ..core import rng_for, Quiet
from ..instrument import api, frame, names

ID = 'C11'
LEVEL = 'exploration'
RULE = ('cases = {ITML, ITML_Supervised} x prior {identity, covariance, '
        'random, SPD array} x gamma {0.1, 1, 10, inf} x bounds {default, '
        'explicit around empirical quantiles, already satisfied by the prior} '
        'x max_iter {1, 3, 50, 5000} x tol {1e-3, 1e-12} x seeded pair sets. '
        'The dual variables and slack-adjusted bounds are read from the live '
        'frame of the solver at its return (sys.monitoring PY_RETURN on '
        '_BaseITML._fit) and the KKT system is evaluated on them: for every '
        'budget M SPD, lambda >= 0, M^-1 - M0^-1 = sum_i y_i lambda_i v_i '
        'v_i^T with M0 recomputed by the harness, 1/xi_i = 1/xi0_i - y_i '
        'lambda_i/gamma; on converged runs primal feasibility and '
        'complementary slackness. An evaluation is one KKT clause on one fit. '
        'distinct_nontrivial counts distinct (estimator, configuration, pair '
        'set) with at least one non-zero dual variable or the '
        'satisfied-prior case.')
ASSUMPTIONS = ['stationarity residual tolerance max(1e-6, 1000*K*eps*cond(M)) '
               'with K rank-one updates; cases whose bound exceeds 1e-2 are '
               'inconclusive', 'gamma=inf is passed as the numpy.inf object']
TIMEOUT = {'quick': 1200, 'thorough': 4 * 3600}
CASE_TIMEOUT = {'quick': 300, 'thorough': 900}
EPS = np.finfo(float).eps
_cap = {'frames': [], 'priors': [], 'code': None}


def setup_worker(tier=None):
  common.setup_worker(tier)
  from metric_learn import itml

  def sink(vals, missing):
    _cap['frames'].append((vals, missing))
  fit = itml._BaseITML._fit
  fit = getattr(fit, '__verif_wrapped__', fit)
  _cap['code'] = frame.capture_at_return(
      fit, ['_lambda', 'pos_bhat', 'neg_bhat', 'A', 'pos_vv', 'neg_vv', 'it',
            'conv', 'gamma', 'y'], sink)

  def fac(orig):
    def wrapper(*a, **k):
      r = orig(*a, **k)
      _cap['priors'].append(np.array(r if not isinstance(r, tuple) else r[0],
                                     copy=True))
      return r
    wrapper.__verif_wrapped__ = orig
    return wrapper
  names.patch_name(itml, '_initialize_metric_mahalanobis', fac)


PRIORS = ['identity', 'covariance', 'random', '@spd']
GAMMAS = [0.1, 1.0, 10.0, 'inf', 1e-3, 1e3]


def cases(tier, seed):
  out = []
  q = tier == 'quick'
  n = 48 if q else 2400
  for i in range(n):
    r = rng_for('c11', seed, i)
    name = 'ITML_Supervised' if i % 4 == 3 else 'ITML'
    mode = ['explicit', 'default', 'explicit', 'satisfied', 'euclid',
            'default'][i % 6]
    if name == 'ITML_Supervised' and mode == 'satisfied':
      mode = 'explicit'
    conv = (i % 3 != 0)
    p = {'prior': PRIORS[(i // 2) % 4], 'gamma': GAMMAS[(i // 3) % 6],
         'max_iter': 5000 if conv else int(r.choice([1, 3, 50])),
         'tol': 1e-12 if conv else float(r.choice([1e-3, 1e-12]))}
    if name == 'ITML_Supervised':
      p['n_constraints'] = int(r.choice([10, 25, 40]))
    # (progress output is a configuration like any other: it must not
    # alter what is computed)
    if i % 5 == 2:
      p['verbose'] = True
    out.append({'est': name, 'params': p, 'mode': mode,
                # the program is scale covariant: coordinates x s, bounds x s^2
                'scale': [1.0, 1.0, 1e5, 1e-4, 1e3][i % 5],
                'ds': {'seed': int(r.randint(2**31 - 1)),
                       'd': int(r.randint(2, 5 if q else 7)),
                       'classes': int(r.randint(2, 4)), 'variant': 'plain',
                       'nmax': 40},
                'n_tuples': int(r.choice([12, 20, 30, 2, 3, 5])),
                'seed': int(r.randint(1000))})
  # training sets with thousands of distinct points (default bounds are
  # percentiles over all of them)
  for i in range(2 if q else 12):
    r = rng_for('c11-large', seed, i)
    out.append({'est': 'ITML', 'mode': 'default', 'scale': 1.0,
                'params': {'prior': ['identity', 'covariance'][i % 2],
                           'gamma': 1.0, 'max_iter': 3, 'tol': 1e-3},
                'ds': {'seed': int(r.randint(2**31 - 1)), 'd': 3,
                       'classes': 3, 'variant': 'plain', 'nmax': 2600,
                       'nmin': 2400},
                'n_tuples': 2600,
                'seed': int(r.randint(1000))})
  # runs that stop by their own convergence test at ordinary tolerances
  for i in range(72 if q else 1600):
    r = rng_for('c11-rest', seed, i)
    name = 'ITML_Supervised' if i % 4 == 3 else 'ITML'
    pr = {'prior': PRIORS[(i // 2) % 4], 'gamma': GAMMAS[(i // 3) % 6],
          'max_iter': 5000, 'tol': [1e-3, 1e-5, 1e-8, 1e-2][i % 4]}
    if name == 'ITML_Supervised':
      pr['n_constraints'] = int(r.choice([10, 25, 40]))
    out.append({'est': name, 'params': pr,
                'mode': ['explicit', 'default', 'euclid'][i % 3],
                'scale': [1.0, 1e3, 1e-4][(i // 5) % 3],
                'ds': {'seed': int(r.randint(2**31 - 1)),
                       'd': int(r.randint(2, 6)),
                       'classes': int(r.randint(2, 4)), 'variant': 'plain',
                       'nmax': 40},
                'n_tuples': int(r.choice([12, 20, 30, 60])),
                'seed': int(r.randint(1000))})
  # points far from the origin: the default bounds are percentiles of
  # *distances*, which do not know where the origin is
  for i in range(6 if q else 120):
    r = rng_for('c11-far', seed, i)
    out.append({'est': ['ITML', 'ITML_Supervised'][i % 2], 'mode': 'default',
                'scale': 1.0,
                'params': dict({'prior': PRIORS[i % 3],
                                'gamma': [1.0, 10.0, 500.0][(i // 2) % 3],
                                'max_iter': int(r.choice([3, 40])),
                                'tol': 1e-6},
                               **({'n_constraints': int(r.choice([20, 50]))}
                                  if i % 2 else {})),
                'ds': {'seed': int(r.randint(2**31 - 1)),
                       'd': int(r.randint(2, 6)), 'classes': 2,
                       'variant': 'far_offset', 'nmax': 40},
                'n_tuples': int(r.choice([12, 20, 30])),
                'seed': int(r.randint(1000))})
  return out


def required(tier):
  q = tier == 'quick'
  n = 30 if q else 400
  return {'C11.frame-captured': n, 'C11.M-spd': n, 'C11.lambda-nonneg': n,
          'C11.stationarity-M': n * 2 // 3, 'C11.stationarity-slack': n,
          'C11.primal-feasible': n // 6, 'C11.complementary-slackness': n // 6,
          'C11.satisfied-prior-returned': 3 if q else 40,
          'C11.prior-is-documented': n,
          'C11.default-bounds-documented': n // 6,
          'C11.converged-means-at-rest': n // 2}


def run_case(spec, j):
  name = spec['est']
  ds = common.dataset(spec['ds'])
  if spec.get('scale', 1.0) != 1.0:
    ds = dict(ds, X=np.asarray(ds['X'], dtype=float) * spec['scale'])
  X = np.asarray(ds['X'], dtype=float)
  d = ds['d']
  f = common.build(spec, ds, use_fast=False)
  p = f.meta['params']
  seed = p['random_state']
  det = {'est': name, 'params': spec['params'], 'mode': spec['mode'], 'd': d,
         'scale': spec.get('scale', 1.0)}
  rng = rng_for('c11run', spec['ds']['seed'])
  # the pairs the solver will see, for choosing explicit bounds
  if name == 'ITML':
    idx, lab = f.meta['tuple_idx'], np.asarray(f.meta['tuple_labels'])
  else:
    from metric_learn.constraints import Constraints
    a, b, c, dd = Constraints(ds['y']).positive_negative_pairs(
        p['n_constraints'], random_state=seed)
    idx = np.vstack([np.column_stack([a, b]), np.column_stack([c, dd])])
    lab = np.r_[np.ones(len(a)), -np.ones(len(c))]
  V = X[idx[:, 0]] - X[idx[:, 1]]
  pts = np.unique(X[idx].reshape(-1, d), axis=0)
  M0 = E.harness_prior(p['prior'], pts, d, seed)
  w0 = np.linalg.eigvalsh(M0)
  if w0.min() <= 1e-10 * w0.max():
    j.skip('C11', 'prior-not-strictly-pd')
    return
  q0 = np.einsum('ij,jk,ik->i', V, M0, V)
  kwargs = {}
  if spec['mode'] == 'explicit':
    u = float(np.quantile(q0[lab == 1], rng.uniform(0.2, 0.8)))
    lo = float(np.quantile(q0[lab == -1], rng.uniform(0.2, 0.8)))
    if (spec['ds']['seed'] // 3) % 2 and min(u, lo) >= 0.5:
      # bounds are numbers: whole numbers held in an integer container must
      # behave like the same numbers as floats (the slack targets move away
      # from them by fractions)
      u, lo = int(max(1, round(u))), int(max(1, round(lo)))
    kwargs['bounds'] = [np.array([u, lo]), [u, lo], (u, lo)][
        spec['ds']['seed'] % 3]
  elif spec['mode'] == 'euclid':
    # bounds that every pair meets in the *Euclidean* metric; whether they
    # hold under the prior is another matter (feasibility is about the prior)
    e0 = np.einsum('ij,ij->i', V, V)
    kwargs['bounds'] = np.array([e0[lab == 1].max() * 1.1,
                                 e0[lab == -1].min() * 0.9])
  elif spec['mode'] == 'satisfied':
    kwargs['bounds'] = np.array([q0[lab == 1].max() * 1.25,
                                 q0[lab == -1].min() * 0.8])
  del _cap['frames'][:]
  del _cap['priors'][:]
  api.set_judge(j, well_formed=True)
  with Quiet():
    try:
      f.est.fit(*f.args, **kwargs)
    except Exception as e:
      api.set_well_formed(False)
      j.violated('C11.fit-returns', dict(det, raised=repr(e)[:300]),
                 mechanism='itml-raised-' + type(e).__name__)
      return
  api.set_well_formed(False)
  est = f.est
  M = est.get_mahalanobis_matrix()
  nM = max(np.abs(M).max(), 1e-300)
  lamM = np.linalg.eigvalsh((M + M.T) / 2)
  # M = L'L is computed from components_: its smallest eigenvalue carries a
  # rounding error of a few ulps of the largest (runs that exhaust max_iter
  # on hard constraints end at cond ~ 1e16: -4e-12 next to 1.3e5 was seen,
  # thorough tier, seed 4); below that level definiteness is not decidable
  floor = 100 * EPS * d * nM
  if abs(lamM.min()) <= floor and np.abs(M - M.T).max() <= 1e-9 * nM:
    j.skip('C11', 'metric-singular-to-rounding')
    return
  j.check('C11.M-spd', np.abs(M - M.T).max() <= 1e-9 * nM and lamM.min() > 0,
          dict(det, lambda_min=lamM.min()))
  if lamM.min() <= 0:
    return
  # the prior the code used is the documented one
  if _cap['priors']:
    P = _cap['priors'][-1]
    j.close('C11.prior-is-documented', P, M0,
            1e-9 * max(np.abs(M0).max(), 1e-300) *
            max(1.0, w0.max() / w0.min() * 1e-3), det)
  bounds = np.asarray(est.bounds_, dtype=float)
  if 'bounds' not in kwargs:
    # documented default: 5th and 95th percentile of the Euclidean distances
    # between the distinct points of the pairs (brute force over all pairs
    # of points)
    # (from coordinate differences, which stay accurate wherever the points
    # lie; the tolerance is relative to the distances, not to the
    # coordinates)
    from scipy.spatial.distance import pdist
    P = pts
    dd = pdist(P)
    want = np.percentile(dd, (5, 95))
    j.close('C11.default-bounds-documented', bounds, want,
            1e-7 * np.abs(want) + 64 * np.finfo(float).eps * np.abs(P).max(),
            dict(det, n_points=len(P), offset=float(np.abs(P.mean(0)).max())))
  gamma = p['gamma']
  frames = [fr for fr in _cap['frames']]
  if _cap['code'] is None or len(frames) != 1 or frames[0][1]:
    j.skip('C11', 'solver-frame-not-captured')
    _existence_certificate(j, M, M0, V, lab, det)
    return
  j.ok('C11.frame-captured')
  vals = frames[0][0]
  lam = np.asarray(vals['_lambda'], dtype=float)
  npos = int((lab == 1).sum())
  ysolver = np.r_[np.ones(npos), -np.ones(len(lab) - npos)]
  Vs = np.vstack([V[lab == 1], V[lab == -1]])     # solver order
  def _same_up_to_sign(A, B):
    A, B = np.asarray(A, float), np.asarray(B, float)
    return A.shape == B.shape and bool(np.all(
        np.all(np.isclose(A, B), axis=1) | np.all(np.isclose(A, -B), axis=1)))
  if not (_same_up_to_sign(vals['pos_vv'], V[lab == 1]) and
          _same_up_to_sign(vals['neg_vv'], V[lab == -1])):
    if name == 'ITML':
      # the caller's own pairs: the program is about exactly these
      # difference vectors (in this order, similar ones first)
      j.violated('C11.constraint-vectors',
                 dict(det, why='the difference vectors the solver works on '
                      'are not those of the pairs passed to fit'),
                 mechanism='solver-sees-other-pairs')
    else:
      # (which pairs a supervised variant derives is C08's question)
      j.skip('C11', 'captured-difference-vectors-do-not-match')
    return
  xi = np.r_[np.asarray(vals['pos_bhat'], float),
             np.asarray(vals['neg_bhat'], float)]
  xi0 = np.r_[np.full(npos, bounds[0]), np.full(len(lab) - npos, bounds[1])]
  n_iter = int(vals['it']) + 1
  j.check('C11.lambda-nonneg', bool(np.all(lam >= 0)),
          dict(det, min_lambda=lam.min()))
  # stationarity in the slacks
  if gamma is np.inf or gamma == float('inf'):
    j.close('C11.stationarity-slack', xi, xi0, 1e-12 * np.abs(xi0), det)
  else:
    lhs = 1.0 / xi
    rhs = 1.0 / xi0 - ysolver * lam / gamma
    j.close('C11.stationarity-slack', lhs, rhs,
            1e-9 * (np.abs(1.0 / xi0) + np.abs(lam / gamma)) *
            max(1, n_iter), det)
  # stationarity in M
  Minv = np.linalg.inv(M)
  M0inv = np.linalg.inv(M0)
  S = (Vs.T * (ysolver * lam)).dot(Vs)
  R = Minv - M0inv - S
  scale = max(np.abs(Minv).max(), np.abs(M0inv).max(), np.abs(S).max())
  cond = lamM.max() / lamM.min()
  K = n_iter * len(lab)
  # every one of the K rank-one updates of A and of a dual variable adds a
  # rounding error of a few ulps relative to the largest intermediate value;
  # runs that exhaust max_iter on conflicting hard constraints (K ~ 1e5) were
  # observed at 1.03e-6 (quick tier, seed 11)
  bound = max(1e-6, 1e-9 * K * cond)
  if bound > 1e-2:
    j.skip('C11.stationarity-M', 'ill-conditioned')
  else:
    j.close('C11.stationarity-M', np.abs(R).max() / scale, 0.0, bound,
            dict(det, cond=cond, K=K, n_iter=n_iter))
  # converged runs: KKT
  pM = np.einsum('ij,jk,ik->i', Vs, M, Vs)
  converged = (p['tol'] <= 1e-12 and n_iter < p['max_iter'] - 1)
  if converged:
    # The library's stopping rule bounds the *total* change of the dual
    # variables in the last sweep by tol * ||lambda||.  A projection moves
    # lambda_i by about (1/d_i - 1/xi_i), so what the rule guarantees for one
    # constraint is a relative residual of the order tol * ||lambda||_1 *
    # xi_i (dimensionless); with tol = 1e-12 and a factor 100 for the
    # constants, on top of the 1e-6 that is demanded anyway.  (1.2e-5 was
    # observed at ||lambda||_1 xi_i ~ 1e7: thorough tier, seed 2.)
    # ... and v'Mv itself is only computed to eps * cond(M) (tiny pair sets
    # with a covariance prior reach cond ~ 1e12)
    rtol_i = 1e-6 + 1e-10 * np.abs(lam).sum() * xi + 10 * EPS * cond
    viol = ysolver * (pM - xi)
    j.check('C11.primal-feasible', bool(np.all(viol <= rtol_i * xi)),
            dict(det, worst=float((viol / xi).max()), n_iter=n_iter))
    cs = lam * np.abs(pM - xi)
    j.check('C11.complementary-slackness',
            bool(np.all(cs <= rtol_i * lam * xi + 1e-300)),
            dict(det, worst=float((np.abs(pM - xi) / xi)[lam > 0].max())
                 if (lam > 0).any() else 0.0, n_iter=n_iter))
  # "converged" = the iteration has come to rest: when fit stopped before its
  # budget, one more sweep of the documented cyclic projections (re-executed
  # here from the captured state) must not move the dual variables by more
  # than the tolerance it stopped for (factor 10 for non-monotone tails)
  if n_iter < p['max_iter'] and p['tol'] > 0 and (lam > 0).any() and \
          'A' in vals:
    A_ = np.array(vals['A'], dtype=float, copy=True)
    l_ = lam.copy()
    x_ = xi.copy()
    g_inf = not np.isfinite(float(gamma))
    gp = 1.0 if g_inf else float(gamma) / (float(gamma) + 1.0)
    for i_, v_ in enumerate(Vs):
      pv = float(v_.dot(A_).dot(v_))
      if ysolver[i_] > 0:
        a_ = min(l_[i_], gp * (1.0 / pv - 1.0 / x_[i_]))
        b_ = a_ / (1.0 - a_ * pv)
        x_[i_] = 1.0 / (1.0 / x_[i_] + (0.0 if g_inf else a_ / float(gamma)))
      else:
        a_ = min(l_[i_], gp * (1.0 / x_[i_] - 1.0 / pv))
        b_ = -a_ / (1.0 + a_ * pv)
        x_[i_] = 1.0 / (1.0 / x_[i_] - (0.0 if g_inf else a_ / float(gamma)))
      l_[i_] -= a_
      Av = A_.dot(v_)
      A_ += b_ * np.outer(Av, Av)
    moved = float(np.abs(l_ - lam).sum() /
                  (np.linalg.norm(l_) + np.linalg.norm(lam)))
    # (duals that are themselves rounding noise - bounds met with equality by
    # the prior - move by 100 % of nothing: lambda_i xi_i is dimensionless,
    # and a move below 1e-9 of it is not a move; thorough sweep, seed 1)
    if float((np.abs(l_ - lam) * xi).max()) <= 1e-9:
      moved = 0.0
      j.count('at-rest.noise-level-duals')
    j.close('C11.converged-means-at-rest', moved, 0.0,
            10 * p['tol'] + 1e-9 * max(1.0, cond * 1e-6),
            dict(det, n_iter=n_iter, tol=p['tol'],
                 relative_dual_change_of_one_more_sweep=moved))
  if spec['mode'] == 'satisfied':
    j.check('C11.satisfied-prior-returned',
            bool(np.all(lam == 0)) and
            np.abs(M - M0).max() <= 1e-9 * np.abs(M0).max() *
            max(1.0, w0.max() / w0.min() * 1e-3),
            dict(det, max_lambda=lam.max(),
                 maxdiff=np.abs(M - M0).max()))
  if (lam > 0).any() or spec['mode'] == 'satisfied':
    j.distinct(name, repr(sorted(spec['params'].items(), key=repr)),
               spec['mode'], spec['ds']['seed'])
  if j.sample is None and (lam > 0).any():
    j.sample = dict(det, n_iter=n_iter, converged=bool(converged),
                    bounds=bounds, lambdas=lam[:6], xi=xi[:6],
                    stationarity_residual=np.abs(R).max() / scale)


def _existence_certificate(j, M, M0, V, lab, det):
  """Weaker fallback when the solver locals cannot be read: existence of
  lambda >= 0 with the stationarity identity (non-negative least squares)."""
  from scipy.optimize import nnls
  T = np.linalg.inv(M) - np.linalg.inv(M0)
  iu = np.triu_indices(M.shape[0])
  Amat = np.array([(lab[i] * np.outer(V[i], V[i]))[iu]
                   for i in range(len(V))]).T
  x, rn = nnls(Amat, T[iu])
  sc = max(np.abs(T).max(), 1e-300)
  j.close('C11.stationarity-M(existence)', rn / sc, 0.0, 1e-5,
          dict(det, certificate='existence'))


LEVEL_TEXT = ('Exploration by runtime monitoring with a certificate oracle: '
              'the dual variables and slack bounds are read from the live '
              'frame of the real solver when it returns (sys.monitoring, no '
              'source change) and the KKT system of the strictly convex '
              'LogDet program is evaluated on them with the prior recomputed '
              'by the harness -- stationarity for every iteration budget, '
              'primal feasibility and complementary slackness on converged '
              'runs, prior returned unchanged when it already satisfies the '
              'bounds. A satisfied certificate proves optimality of that '
              'particular result; the forall over inputs is explored, not '
              'proved.')
LEVEL_NOTE = ('If the solver\'s local names cannot be read the check falls '
              'back to an existence certificate (NNLS) and reports the '
              'frame-capture monitor as not reached (inconclusive).')
TECHNIQUE = ('runtime monitoring: solver-local dual state captured via '
             'sys.monitoring PY_RETURN + KKT certificate oracle')
