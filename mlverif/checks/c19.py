"""C19 -- the learned distance depends on the data only through its
geometry."""
import numpy as np

from .. import common, estimators as E
from ..core import rng_for, Quiet
from ..instrument import api
from ..workloads import data as D

ID = 'C19'
LEVEL = 'exploration'
RULE = ('cases = (estimator, relation, seeded dataset on a dyadic grid with '
        'distinct rows): translation by t in (Z/4)^d, |t| <= 10 (all 17 '
        'estimators); within-tuple swaps (ITML, MMC, SDML: pairs reversed; '
        'LSML: both pairs reversed); sample permutation (Covariance, RCA with '
        'chunk labels permuted along); random orthogonal Q (Covariance, RCA '
        'incl. reduced, LFDA, LMNN init=identity, ITML, LSML, MMC with '
        'identity/covariance prior or init); scaling by c in {0.25, 3, 100} '
        '(Covariance, RCA). Metamorphic twin execution: the estimator is '
        'fitted on the original and on the transformed data and '
        'pair_distance is compared on corresponding query pairs (1e-3 '
        'relative). An evaluation is one relation instance judged. '
        'distinct_nontrivial counts distinct (estimator, relation, dataset) '
        'whose learned metric is not a multiple of the identity.')
ASSUMPTIONS = ['for the learners that run an optimiser with discrete '
               'decisions (NCA, MLKR, LMNN line searches; SCML hinge active '
               'sets with large stochastic steps) an end-to-end deviation is '
               'a violation only if it is also visible where the algorithm '
               'becomes a function of geometry alone (first optimiser step; '
               'basis and distance differences handed to the SCML solver); '
               'otherwise the case is inconclusive (path bifurcation on '
               '1-ulp differences)',
               'iteration budgets are small so that rounding differences '
               'between the two runs are not amplified by long optimiser '
               'paths; for LMNN and SCML_Supervised (k-NN based target / '
               'triplet selection) datasets with an exact distance tie at '
               'the selection boundary are skipped (the selection itself is '
               'ambiguous there)']
TIMEOUT = {'quick': 1500, 'thorough': 5 * 3600}
CASE_TIMEOUT = {'quick': 400, 'thorough': 1200}
setup_worker = common.setup_worker

SWAP = ['ITML', 'MMC', 'SDML', 'LSML']
PERM = ['Covariance', 'RCA']
ROT = ['Covariance', 'RCA', 'LFDA', 'LMNN', 'ITML', 'LSML', 'MMC']
SCALE = ['Covariance', 'RCA']


def cases(tier, seed):
  out = []
  q = tier == 'quick'
  rep = 3 if q else 400

  def add(name, rel, i, params=None):
    r = rng_for('c19', seed, name, rel, i)
    out.append({'est': name, 'rel': rel, 'params': params or {},
                'ds': {'seed': int(r.randint(2**31 - 1)),
                       'd': int(r.randint(2, 5 if q else 7)),
                       'classes': int(r.randint(2, 4)),
                       # (rotations are inexact anyway; on the grid LMNN's
                       # hinge arguments 1 + d_ij - d_il are often exactly 0
                       # at the identity and a rotation breaks those ties
                       # arbitrarily)
                       'variant': 'plain' if (name == 'LMNN' and
                                              rel == 'rotate') else
                       # (k-NN selections tie too often on the coarse grid)
                       'dyadic_fine' if name in ('LMNN', 'SCML_Supervised')
                       else 'dyadic',
                       'nmax': 44},
                'seed': int(r.randint(1000)), 'rseed': int(r.randint(2**31 - 1))})
  from ..workloads import configs
  for name in E.ALL:
    for i in range(rep):
      # option variants matter (e.g. reduced RCA uses the total covariance)
      cfgs = [c for c in configs.light(name, 3, 3)
              if not c.get('diagonal') and
              not any(isinstance(v, str) and v.startswith('@')
                      for v in c.values())]
      p = dict(cfgs[i % len(cfgs)])
      if p.get('n_components') is not None:
        p['n_components'] = 1
      if name == 'LMNN':
        p.update(learn_rate=[1e-4, 1e-3, 1e-5][i % 3], max_iter=20)
      add(name, 'translate', i, p)
  for name in SWAP:
    for i in range(rep):
      add(name, 'swap', i)
  for name in PERM:
    for i in range(rep):
      add(name, 'permute', i, {'n_components': None} if name == 'RCA' else {})
  for name in ROT:
    for i in range(rep):
      p = {}
      if name == 'LMNN':
        p = {'init': 'identity', 'learn_rate': [1e-4, 1e-3][i % 2],
             'max_iter': 20}
      elif name in ('ITML', 'LSML'):
        p = {'prior': ['identity', 'covariance'][i % 2]}
      elif name == 'MMC':
        p = {'init': ['identity', 'covariance'][i % 2]}
      elif name == 'RCA':
        p = {'n_components': [None, 1][i % 2]}
      elif name == 'LFDA':
        p = {'embedding_type': ['weighted', 'plain', 'orthonormalized'][i % 3]}
      add(name, 'rotate', i, p)
  for name in SCALE:
    for i in range(rep):
      add(name, 'scale', i)
  # coarse integer grids (exactly zero sample covariances between some
  # features): a rotation destroys such coincidences, the geometry is the same
  for name in ('ITML', 'LSML', 'MMC', 'Covariance', 'RCA', 'LFDA'):
    for i in range(6 if q else 60):
      r = rng_for('c19-coarse', seed, name, i)
      p_ = {}
      if name in ('ITML', 'LSML'):
        p_ = {'prior': 'covariance'}
      elif name == 'MMC':
        p_ = {'init': 'covariance'}
      out.append({'est': name, 'rel': 'rotate', 'params': p_,
                  'ds': {'seed': int(r.randint(2**31 - 1)),
                         'd': int(r.randint(3, 6)),
                         'classes': int(r.randint(2, 4)),
                         'variant': ['coarse', 'factorial'][i % 2],
                         'nmax': 44},
                  'seed': int(r.randint(1000)),
                  'rseed': int(r.randint(2**31 - 1))})
  # a training set with thousands of distinct points (anything that orders or
  # subsamples points by their raw coordinates shows under a rotation)
  for i in range(1 if q else 6):
    r = rng_for('c19-large', seed, i)
    out.append({'est': 'ITML', 'rel': 'rotate',
                'params': {'prior': ['identity', 'covariance'][i % 2],
                           'max_iter': 3},
                'ds': {'seed': int(r.randint(2**31 - 1)), 'd': 3,
                       'classes': 3, 'variant': 'plain', 'nmax': 2600,
                       'nmin': 2400},
                'n_tuples': 2600, 'seed': int(r.randint(1000)),
                'rseed': int(r.randint(2**31 - 1))})
  return out


def required(tier):
  q = tier == 'quick'
  n = 2 if q else 30
  req = {'C19.translate.' + e: n for e in E.ALL}
  # (datasets with a k-NN tie on the grid are skipped for these two)
  req['C19.translate.LMNN'] = 1 if q else 12
  req['C19.translate.SCML_Supervised'] = 1 if q else 12
  req.update({'C19.swap.' + e: n for e in SWAP})
  req.update({'C19.permute.' + e: n for e in PERM})
  req.update({'C19.rotate.' + e: n for e in ROT})
  req.update({'C19.scale.' + e: n for e in SCALE})
  req['C19.translate.LMNN'] = 1 if q else 12
  req['C19.translate.SCML_Supervised'] = 1 if q else 12
  return req


def run_case(spec, j):
  name, rel = spec['est'], spec['rel']
  ds = common.dataset(spec['ds'])
  X = np.asarray(ds['X'], dtype=float)
  n, d = X.shape
  rng = rng_for('c19run', spec['rseed'])
  f1 = common.build(spec, ds)
  kind = E.KIND[name]
  if name in ('LMNN', 'SCML_Supervised') and \
          ds['variant'].startswith('dyadic'):
    # k-NN based target / triplet selection: an exact distance tie at the
    # selection boundary (frequent on a grid) makes the selection itself
    # ambiguous, whatever the geometry
    p1 = f1.est.get_params()
    ks = [p1['n_neighbors']] if name == 'LMNN' else [p1['k_genuine']]
    ki = None if name == 'LMNN' else p1['k_impostor']
    if _knn_tie(X, ds['y'], ks[0], ki):
      j.skip('C19', 'knn-tie-on-the-grid')
      return
  factor = 1.0
  qmap = lambda Q: Q                     # noqa: E731
  # ---- the transformed problem
  X2 = X
  order = np.arange(n)
  tinfo = None
  if rel == 'translate':
    t = rng.randint(-40, 41, size=d) / 4.0
    X2 = X + t
    qmap = lambda Q: Q + t               # noqa: E731
    tinfo = t
  elif rel == 'rotate':
    Qm = D.random_orthogonal(rng, d)
    X2 = X.dot(Qm)
    qmap = lambda Q: Q.dot(Qm)           # noqa: E731
  elif rel == 'scale':
    c = float([0.25, 3.0, 100.0][spec['rseed'] % 3])
    X2 = X * c
    factor = 1.0 / c
    tinfo = c
  elif rel == 'permute':
    order = rng.permutation(n)
    X2 = X[order]
  ds2 = dict(ds, X=X2)
  if rel == 'permute':
    ds2 = dict(ds, X=X2, y=ds['y'][order], t=ds['t'][order])
  # identical parameters and identical tuples / chunks (by index)
  est2 = E.cls(name)(**f1.est.get_params(deep=False))
  if kind in ('unsup',):
    args2 = (X2,)
  elif kind == 'points':
    args2 = (X2, ds2['y'])
  elif kind == 'regress':
    args2 = (X2, ds2['t'])
  elif kind == 'chunks':
    ch = f1.meta['chunks']
    args2 = (X2, ch[order] if rel == 'permute' else ch)
  else:
    idx = f1.meta['tuple_idx']
    lab = f1.meta['tuple_labels']
    if rel == 'swap':
      idx2 = idx[:, ::-1] if kind == 'pairs' else idx[:, [1, 0, 3, 2]]
    else:
      idx2 = idx
    T2 = X2[idx2]
    args2 = (T2,) if lab is None else (T2, lab)
  det = {'est': name, 'relation': rel, 'params': spec['params'], 'd': d,
         'n': n, 'info': tinfo}
  api.set_judge(j, well_formed=True)
  with Quiet():
    try:
      f1.fit()
    except Exception as e:
      # (whether fit may raise on the original data is C03's question)
      api.set_well_formed(False)
      j.skip('fit', 'raised-%s' % type(e).__name__)
      j.note('fit raised %r %s' % (e, spec))
      return
    try:
      est2.fit(*args2)
    except Exception as e:
      api.set_well_formed(False)
      if name.startswith('SDML') and isinstance(e, RuntimeError):
        j.skip('fit', 'sdml-solver-failure-on-transformed-data')
        return
      # the same geometry, presented differently, must be learnable too
      j.violated('C19.%s.%s' % (rel, name),
                 dict(det, why='fit on the original data returned, fit on '
                      'the transformed data raised', raised=repr(e)[:300]),
                 mechanism='transformed-fit-raised-' + type(e).__name__)
      return
  api.set_well_formed(False)
  L1, L2 = f1.est.components_, est2.components_
  if not np.all(np.isfinite(L1)):
    j.skip('C19', 'degenerate-model')
    return
  if not np.all(np.isfinite(L2)):
    j.violated('C19.%s.%s' % (rel, name),
               dict(det, why='finite model on the original data, non-finite '
                    'model on the transformed data'),
               mechanism='transformed-fit-non-finite')
    return
  Q = X[rng.randint(0, n, size=(30, 2))] + rng.randn(30, 2, d) * 0.25
  with Quiet():
    d1 = f1.est.pair_distance(Q) * factor
    d2 = est2.pair_distance(np.stack([qmap(Q[:, 0]), qmap(Q[:, 1])], axis=1)
                            if rel in ('translate', 'rotate') else Q)
  scale = max(np.abs(d1).max(), 1e-300)
  tol = 1e-3 * np.abs(d1) + 1e-5 * scale
  if name.startswith('SDML'):
    # scikit-learn's graphical lasso stops at a duality-gap tolerance: two
    # runs on inputs that differ in the last bit may stop one sweep apart
    # (1.9e-3 relative observed in 12 800 thorough cases, seed 1)
    tol = 1e-2 * np.abs(d1) + 1e-4 * scale
  mon = 'C19.%s.%s' % (rel, name)
  dev = float(np.max(np.abs(d2 - d1) / tol)) if len(d1) else 0.0
  if dev > 1.0 and name in ('NCA', 'MLKR', 'LMNN', 'SCML', 'SCML_Supervised'):
    # These learners run an optimiser whose discrete decisions (line-search
    # acceptance, hinge active sets of a stochastic scheme with large steps)
    # can bifurcate on 1-ulp differences between the two runs.  Before
    # calling it a violation, look where the algorithm becomes a function of
    # geometry only: the first optimiser step (NCA / MLKR / LMNN), the
    # distance differences and the basis handed to the solver (SCML).
    verdict = _structural_recheck(spec, name, f1, est2, args2, Q, qmap, rel,
                                  factor)
    if verdict is True:
      j.skip(mon, 'optimiser-path-bifurcation(structural-recheck-passed)')
      j.margin(mon + '(bifurcated)', dev)
      return
    if verdict is None:
      j.skip(mon, 'structural-recheck-not-available')
      return
    det = dict(det, structural_recheck='failed')
  j.close(mon, d2, d1, tol, det)
  M1 = L1.T.dot(L1)
  if not np.allclose(M1, np.eye(d) * M1[0, 0], rtol=1e-6, atol=1e-12):
    j.distinct(name, rel, spec['ds']['seed'])
  if j.sample is None:
    j.sample = dict(det, d_original=d1[:4], d_transformed=d2[:4])


def _knn_tie(X, y, k_same, k_other):
  """Exact (dyadic arithmetic) test for a tie between the k-th and the
  (k+1)-th nearest same-class / other-class neighbour of some point."""
  n = len(X)
  D2 = ((X[:, None, :] - X[None, :, :]) ** 2).sum(-1)
  for i in range(n):
    same = np.where((y == y[i]) & (np.arange(n) != i))[0]
    ds_ = np.sort(D2[i, same])
    k = min(k_same, len(ds_))
    if k < len(ds_) and ds_[k] == ds_[k - 1]:
      return True
    if k_other is not None:
      do = np.sort(D2[i, y != y[i]])
      k2 = min(k_other, len(do))
      if k2 < len(do) and do[k2] == do[k2 - 1]:
        return True
  return False


def _structural_recheck(spec, name, f1, est2, args2, Q, qmap, rel, factor):
  """True: geometry-only at the structural level; False: not; None: n/a."""
  from sklearn.base import clone
  with Quiet():
    try:
      if name in ('NCA', 'MLKR', 'LMNN'):
        a, b = clone(f1.est), clone(est2)
        small = {'max_iter': 1} if name != 'LMNN' else {'max_iter': 3}
        a.set_params(**small)
        b.set_params(**small)
        a.fit(*f1.args, **f1.kwargs)
        b.fit(*args2)
        d1 = a.pair_distance(Q) * factor
        d2 = b.pair_distance(
            np.stack([qmap(Q[:, 0]), qmap(Q[:, 1])], axis=1)
            if rel in ('translate', 'rotate') else Q)
        tol = 1e-3 * np.abs(d1) + 1e-5 * max(np.abs(d1).max(), 1e-300)
        return bool(np.all(np.abs(d2 - d1) <= tol))
      # SCML: what the solver is given
      from metric_learn.scml import _BaseSCML
      caps = []
      orig = _BaseSCML._compute_dist_diff

      def spy(self, triplets, X, basis):
        r = orig(self, triplets, X, basis)
        caps.append((np.array(basis, copy=True), np.array(r, copy=True)))
        return r
      _BaseSCML._compute_dist_diff = spy
      try:
        clone(f1.est).fit(*f1.args, **f1.kwargs)
        clone(est2).fit(*args2)
      finally:
        _BaseSCML._compute_dist_diff = orig
      if len(caps) != 2:
        return None
      (b1, dd1), (b2, dd2) = caps
      if b1.shape != b2.shape or dd1.shape != dd2.shape:
        return False
      # bases equal up to the sign of each row; distance differences equal
      P1 = np.einsum('ki,kj->kij', b1, b1)
      P2 = np.einsum('ki,kj->kij', b2, b2)
      okb = np.abs(P1 - P2).max() <= 1e-6 * max(np.abs(P1).max(), 1e-300)
      okd = np.abs(dd1 - dd2).max() <= 1e-6 * max(np.abs(dd1).max(), 1e-300)
      return bool(okb and okd)
    except Exception:
      return None


LEVEL_TEXT = ('Exploration by runtime monitoring with metamorphic twin '
              'execution: each estimator is fitted on seeded dyadic-grid '
              'data and on a translated / tuple-swapped / permuted / rotated '
              '/ scaled copy (relations per the property), and the real '
              'pair_distance of the two fitted objects is compared on '
              'corresponding query pairs. Slips of the kind the property '
              'targets (raw coordinates instead of differences, wrong '
              'centring, row/column mix-ups) move distances by O(1), the '
              'tolerance is 1e-3 relative. Held on the executions in the '
              'evidence file.')
LEVEL_NOTE = ('Small iteration budgets keep rounding amplification out; the '
              'largest observed relative deviation is reported as '
              'worst_margin.')
TECHNIQUE = ('runtime monitoring: metamorphic (twin-execution) oracle on '
             'pair_distance of models fitted on geometrically related data')
