"""C14 -- MMC returns a PSD matrix that satisfies its similarity budget."""
import numpy as np

from .. import common, estimators as E
from ..core import rng_for, Quiet
from ..instrument import api, names

ID = 'C14'
LEVEL = 'exploration'
RULE = ('cases = {MMC, MMC_Supervised} x init {identity, covariance, random, '
        'SPD array} x max_iter {1, 5, 30} x tol x diagonal {False, True} x '
        'diagonal_c {0.1, 1, 10} x seeded labelled pair sets. The '
        'dissimilarity objective _fD is wrapped: its two calls per cycle '
        'expose the current accepted matrix and the projected candidate, so '
        'the whole iterate sequence is an event log. An offline checker '
        'replays the documented acceptance rule (feasible within 1% of the '
        'budget t = sum_S d^2_A0 / 100, PSD, and improving the dissimilar-'
        'pair objective, or first cycle) over the log and requires the '
        'result to be the last accepted candidate, the first logged matrix '
        'to be the harness-recomputed initial matrix, and independently M '
        'PSD and within budget. diagonal=True: exactly diagonal, >= 0, no '
        'NaN (ValueError allowed). An evaluation is one clause on one fit. '
        'distinct_nontrivial counts distinct (estimator, configuration, pair '
        'set) with at least one accepted candidate (full) or a returned '
        'diagonal matrix.')
ASSUMPTIONS = ['fits whose first projection does not reach feasibility '
               'within max_proj are outside the quantifier for the budget '
               'clause (counted; the other clauses are still judged)',
               'skip band of 1e-9 relative around the 1.01*t feasibility '
               'boundary']
TIMEOUT = {'quick': 1200, 'thorough': 4 * 3600}
CASE_TIMEOUT = {'quick': 300, 'thorough': 900}
_cap = {'fD': [], 'fit': []}


def setup_worker(tier=None):
  common.setup_worker(tier)
  from metric_learn.mmc import _BaseMMC

  def fD_factory(orig):
    def _fD(self, neg_pairs, A):
      r = orig(self, neg_pairs, A)
      _cap['fD'].append((np.array(A, copy=True), float(r)))
      return r
    return _fD
  names.wrap_method(_BaseMMC, '_fD', fD_factory)

  def fit_factory(tag):
    def factory(orig):
      def wrapper(self, pairs, y):
        _cap['fit'].append((tag, np.array(pairs, copy=True),
                            np.array(y, copy=True)))
        return orig(self, pairs, y)
      return wrapper
    return factory
  names.wrap_method(_BaseMMC, '_fit_full', fit_factory('full'))
  names.wrap_method(_BaseMMC, '_fit_diag', fit_factory('diag'))


def cases(tier, seed):
  out = []
  q = tier == 'quick'
  n = 48 if q else 2500
  for i in range(n):
    r = rng_for('c14', seed, i)
    name = 'MMC_Supervised' if i % 4 == 3 else 'MMC'
    diag = (i % 3 == 2)
    p = {'init': ['identity', 'covariance', 'random', '@spd'][(i // 2) % 4],
         'max_iter': [1, 5, 30, 10][i % 4], 'max_proj': 10000,
         'tol': [1e-3, 1e-6][i % 2], 'diagonal': diag}
    if diag:
      p['diagonal_c'] = [0.1, 1.0, 10.0][(i // 3) % 3]
      p['max_iter'] = [5, 30, 100][(i // 3) % 3]
    if name == 'MMC_Supervised':
      p['n_constraints'] = int(r.choice([10, 25, 40]))
    # (progress output is a configuration like any other: it must not
    # alter what is computed)
    if i % 5 == 2:
      p['verbose'] = True
    out.append({'est': name, 'params': p, 'tight': bool(i % 3 == 1),
                'ds': {'seed': int(r.randint(2**31 - 1)),
                       'd': int(r.randint(2, 5 if q else 7)),
                       'classes': int(r.randint(2, 4)), 'variant': 'plain',
                       'nmax': 48},
                'n_tuples': int(r.choice([12, 24, 40, 2, 3, 5])),
                'seed': int(r.randint(1000))})
  # a first projection that converges only after hundreds of thousands of
  # sweeps (budget half-space nearly tangent to the PSD cone), with max_proj
  # raised accordingly: "max_proj large enough for one projection to converge"
  for i in range(1 if q else 4):
    r = rng_for('c14-slow', seed, i)
    out.append({'est': 'MMC', 'tight': False, 'slow': True,
                'C': float(r.uniform(3000, 5000)),
                'params': {'init': '@slow', 'max_iter': 1,
                           'max_proj': 2000000, 'tol': 1e-3,
                           'diagonal': False},
                'ds': {'seed': int(r.randint(2**31 - 1)), 'd': 2,
                       'classes': 2, 'variant': 'plain', 'nmax': 20},
                'n_tuples': 3, 'seed': int(r.randint(1000))})
  # long trajectories in two and three dimensions: rejected cycles followed
  # by accepted ones, projections that start from a restored iterate
  for i in range(80 if q else 1600):
    r = rng_for('c14-long', seed, i)
    out.append({'est': 'MMC', 'tight': False,
                'params': {'init': ['identity', 'covariance', 'random',
                                    '@spd'][i % 4],
                           'max_iter': 60, 'max_proj': [50, 1000, 10000][i % 3],
                           'tol': 1e-6, 'diagonal': False},
                'ds': {'seed': int(r.randint(2**31 - 1)),
                       'd': 2 if i % 3 else 3,
                       'classes': int(r.randint(2, 4)), 'variant': 'plain',
                       'nmax': 48},
                'n_tuples': int(r.choice([12, 24, 40])),
                'seed': int(r.randint(1000))})
  # coarse lattices (grid data, few levels per feature): pair differences are
  # axis-aligned or diagonal, the PSD projection clips whole axes to exactly
  # zero, and dissimilar pairs may lie exactly in the null space of an iterate
  for i in range(60 if q else 2000):
    r = rng_for('c14-lattice', seed, i)
    out.append({'est': 'MMC', 'tight': False,
                'lattice': int(2 + i % 3),
                'params': {'init': ['identity', 'covariance'][i % 2],
                           'max_iter': 30, 'max_proj': 10000,
                           'tol': [1e-3, 1e-6][(i // 2) % 2],
                           'diagonal': False},
                'ds': {'seed': int(r.randint(2**31 - 1)),
                       'd': 2 if i % 4 else 3, 'classes': 2,
                       'variant': 'plain', 'nmax': 16},
                'n_tuples': int(r.choice([3, 4, 6, 8])),
                'seed': int(r.randint(1000))})
  # dissimilar pairs in the null space of a singular iterate (their
  # quadratic form is rounding noise of either sign): a small design of
  # integer displacements, in all orientations
  for i in range(8 if q else 96):
    r = rng_for('c14-null', seed, i)
    out.append({'est': 'MMC', 'tight': False,
                # (every fourth: all displacements along one axis - the two
                # gradients of the scheme are then exactly parallel)
                'oneaxis': bool(i % 4 == 3),
                'nullspace': {'perm': [int(x) for x in r.permutation(3)],
                              'signs': [int(x) for x in r.choice([-1, 1], 3)],
                              'base': [int(x) for x in r.randint(-3, 4, 3)]},
                'params': {'init': 'identity', 'max_iter': [100, 30][i % 2],
                           'max_proj': 10000, 'tol': 1e-3, 'diagonal': False},
                'ds': {'seed': int(r.randint(2**31 - 1)), 'd': 3,
                       'classes': 2, 'variant': 'plain', 'nmax': 16},
                'n_tuples': 4, 'seed': int(r.randint(1000))})
  return out


def required(tier):
  q = tier == 'quick'
  n = 20 if q else 250
  return {'C14.trace-captured': n, 'C14.psd': n, 'C14.budget': n * 2 // 3,
          'C14.initial-matrix': n, 'C14.trace-follows-scheme': n,
          'C14.result-last-accepted': n, 'C14.diagonal': 10 if q else 120,
          'C14.first-projection-converges': n,
          'C14.tight-max_proj': n // 4,
          'C14.candidates-follow-scheme': n}


def _sumsq(A, diffs):
  return float(np.einsum('ij,jk,ik->', diffs, A, diffs))


def _reference_projection_converges(A0, S, t, max_proj, eps=0.01):
  d = A0.shape[0]
  w = np.zeros((d, d))
  for v in S:
    w += np.outer(v, v)
  w = w.ravel()
  wn = np.linalg.norm(w)
  w1, t1 = w / wn, t / wn
  A = np.array(A0, dtype=float, copy=True)
  for _ in range(int(max_proj)):
    x = A.ravel()
    if w.dot(x) > t:
      x = x + (t1 - w1.dot(x)) * w1
    A = x.reshape(d, d)
    lam, V = np.linalg.eigh((A + A.T) / 2)
    A = (V * np.maximum(lam, 0)).dot(V.T)
    if (w.dot(A.ravel()) - t) / t < eps:
      return True
  return False


def _reference_need(A0, S, t, cap, eps=0.01):
  """Number of alternating projections after which the documented scheme
  first meets the budget, or None when that number exceeds `cap` or the
  convergence test is within 1e-6 (relative) of its threshold at the deciding
  or at the preceding iteration (rounding could then move the count)."""
  d = A0.shape[0]
  w = np.zeros((d, d))
  for v in S:
    w += np.outer(v, v)
  w = w.ravel()
  wn = np.linalg.norm(w)
  w1, t1 = w / wn, t / wn
  A = np.array(A0, dtype=float, copy=True)
  prev = None
  for it in range(int(cap)):
    x = A.ravel()
    if w.dot(x) > t:
      x = x + (t1 - w1.dot(x)) * w1
    A = x.reshape(d, d)
    lam, V = np.linalg.eigh((A + A.T) / 2)
    A = (V * np.maximum(lam, 0)).dot(V.T)
    err = (w.dot(A.ravel()) - t) / t
    if err < eps:
      clear = abs(err - eps) > 1e-6 * eps and \
          (prev is None or abs(prev - eps) > 1e-6 * eps)
      return it + 1 if clear else None
    prev = err
  return None


def _reference_cycles(A0, S, Dn, t, max_iter, max_proj, tol, eps=0.01,
                      noise_sign=0):
  """Sequential re-execution of the full-matrix scheme (Xing et al. as the
  library documents it): per cycle the matrix the cycle started from, the
  projected candidate, and whether a decision of that cycle was too close to
  call (projection test within 1e-6 of its threshold, objectives within 1e-10
  relative).  Written with explicit sums, no shared code."""
  d = A0.shape[0]

  def fS1():
    G = np.zeros((d, d))
    for v in S:
      G += np.outer(v, v)
    return G

  def fD(A):
    return float(np.log(sum(np.sqrt(max(v.dot(A).dot(v), 0.0)) for v in Dn)
                        + 1e-6))

  noisy = [False]

  def fD1(A):
    # A dissimilar pair that lies (mathematically) in the null space of the
    # iterate has a quadratic form that is pure rounding noise, q ~ +-1e-17,
    # and the documented weight 0.5 / (sqrt(q) + 1e-6) turns that noise into
    # a relative change of a percent.  noise_sign = +1 / -1 evaluates the
    # weight at the two ends of the rounding interval of q (an envelope for
    # what a correct implementation may compute); the caller compares the
    # next candidate with the envelope and stops there.
    nA = np.abs(A).max()
    qs = []
    for v in Dn:
      q_ = v.dot(A).dot(v)
      dq = 64 * np.finfo(float).eps * nA * v.dot(v) * d
      lo, hi = np.sqrt(max(q_ - dq, 0.0)), np.sqrt(max(q_ + dq, 0.0))
      if hi - lo > 1e-4 * (lo + 1e-6):
        noisy[0] = True
        q_ = max(q_ + noise_sign * dq, 0.0) if noise_sign else q_
      qs.append(q_)
    dist = np.array([np.sqrt(max(q_, 0.0)) for q_ in qs])
    G = np.zeros((d, d))
    for v, di in zip(Dn, dist):
      G += np.outer(v, v) * (0.5 / (di + 1e-6))
    return G / (dist.sum() + 1e-6)

  degenerate = [False]

  def gproj(g1, g2):
    g2 = g2 / np.linalg.norm(g2)
    g = g1 - np.sum(g1 * g2) * g2
    # (gradients that are parallel up to rounding - e.g. the same
    # displacements judged similar and dissimilar, with equal weights - leave
    # a remainder that is pure rounding noise; normalising it gives a
    # direction no two evaluations agree on)
    if np.linalg.norm(g) <= 1e-8 * np.linalg.norm(g1):
      degenerate[0] = True
    return g / np.linalg.norm(g)

  w = fS1().ravel()
  wn = np.linalg.norm(w)
  w1, t1 = w / wn, t / wn
  A = np.array(A0, dtype=float, copy=True)
  alpha = 0.1
  M = gproj(fS1(), fD1(A))
  A_old = A.copy()
  out = []
  for cycle in range(int(max_iter)):
    satisfy = False
    close = False
    for it in range(int(max_proj)):
      x0 = A.ravel()
      s0 = w.dot(x0)
      # (when s0 equals t up to rounding, projecting or not is the same
      # matrix up to rounding: not a decision that can bifurcate)
      if s0 > t:
        A = (x0 + (t1 - w1.dot(x0)) * w1).reshape(d, d)
      lam, V = np.linalg.eigh((A + A.T) / 2)
      A = (V * np.maximum(0, lam)).dot(V.T)
      err = (w.dot(A.ravel()) - t) / t
      if abs(err - eps) <= 1e-6 * eps:
        close = True
      if err < eps:
        satisfy = True
        break
    obj_prev, obj = fD(A_old), fD(A)
    if abs(obj - obj_prev) <= 1e-10 * max(abs(obj), 1.0) and cycle > 0:
      close = True
    if degenerate[0]:
      close = True
    out.append({'A_old': A_old.copy(), 'cand': A.copy(), 'close': close,
                'noisy': noisy[0]})
    if close or noisy[0]:
      # (a candidate computed from noise-level weights is compared with the
      # envelope by the caller; nothing after it is comparable)
      break
    if satisfy and (obj > obj_prev or cycle == 0):
      alpha *= 1.05
      A_old = A.copy()
      M = gproj(fD1(A), fS1())
      A = A + alpha * M
    else:
      alpha /= 2
      A = A_old + alpha * M
    delta = np.linalg.norm(alpha * M) / np.linalg.norm(A_old)
    if delta < tol:
      break
  return out


def _slow_case(spec, j):
  from metric_learn import MMC
  rng = rng_for('c14-slow-run', spec['ds']['seed'])
  C = spec['C']
  pairs = np.array([[[0., 0.], [1., 0.]],
                    [[0., 0.], [0.3, 1.]],
                    [[1., 2.], [0.5, -1.]]])
  # (the similar pair differs along the first feature only: that is what
  # makes the budget half-space nearly tangent to the cone; the dissimilar
  # pairs may move)
  pairs[1:] += 0.02 * rng.randn(2, 2, 2)
  y = np.array([1, -1, -1])
  init = np.array([[1., 0.5 * np.sqrt(C)], [0.5 * np.sqrt(C), C]])
  S = pairs[y == 1][:, 0] - pairs[y == 1][:, 1]
  t = _sumsq(init, S) / 100.0
  det = {'est': 'MMC', 'family': 'slow first projection', 'C': C,
         'max_proj': spec['params']['max_proj']}
  est = MMC(init=init, max_iter=1, max_proj=spec['params']['max_proj'])
  api.set_judge(j, well_formed=True)
  with Quiet():
    try:
      est.fit(pairs, y)
    except Exception as e:
      api.set_well_formed(False)
      j.violated('C14.fit-returns', dict(det, raised=repr(e)[:300]),
                 mechanism='mmc-raised-' + type(e).__name__)
      return
  api.set_well_formed(False)
  M = est.get_mahalanobis_matrix()
  lam = np.linalg.eigvalsh((M + M.T) / 2)
  j.check('C14.psd', lam.min() >= -1e-10 * max(np.abs(M).max(), 1e-300),
          dict(det, lambda_min=lam.min()))
  ssq = _sumsq(M, S)
  if ssq <= 1.01 * (1 + 1e-9) * t:
    j.ok('C14.budget')
    j.ok('C14.first-projection-converges')
    j.count('c14.slow-projection-converged')
    return
  # over budget: only a violation if the documented projection does converge
  # within max_proj (decided by the harness' own alternating projection)
  if _reference_projection_converges(init, S, t, spec['params']['max_proj']):
    j.violated('C14.first-projection-converges',
               dict(det, budget=t, sum_sq=ssq, ratio=ssq / t,
                    why='the documented alternating projection reaches the '
                    'budget within max_proj, the returned matrix is outside'),
               mechanism='first-projection-infeasible')
  else:
    j.skip('C14', 'reference-projection-does-not-converge-either')


def run_case(spec, j):
  if spec.get('slow'):
    return _slow_case(spec, j)
  name = spec['est']
  ds = common.dataset(spec['ds'])
  X = np.asarray(ds['X'], dtype=float)
  d = ds['d']
  if spec.get('lattice'):
    # distinct points of {0, .., levels - 1}^d (as many as the lattice has,
    # at most), labels kept
    from ..workloads.data import _distinct_rows
    lv = spec['lattice']
    rl = rng_for('c14-lattice-data', spec['ds']['seed'])
    keep = min(len(X), lv ** d)
    pick = rl.choice(lv ** d, size=keep, replace=False)
    Xl = np.array(np.unravel_index(pick, (lv,) * d), dtype=float).T
    yk = np.asarray(ds['y'])[:keep]
    if len(set(yk.tolist())) < 2 or min(np.bincount(yk)) < 2:
      yk = np.arange(keep) % 2
    ds = dict(ds, X=Xl, y=yk, n=keep, t=np.asarray(ds['t'])[:keep])
    X = Xl
    j.count('lattice-designs')
  f = common.build(spec, ds, use_fast=False)
  p = f.meta['params']
  seed = p['random_state']
  det = {'est': name, 'params': spec['params'], 'd': d}
  if spec.get('nullspace'):
    g = spec['nullspace']
    sg = np.array(g['signs'], dtype=float)
    Sv = np.array([[0, 1, -1], [-1, -1, 0]], dtype=float)[:, g['perm']] * sg
    Dv = np.array([[1, 1, -2], [-1, -2, 1]], dtype=float)[:, g['perm']] * sg
    if spec.get('oneaxis'):
      e_ = np.zeros(3)
      e_[g['perm'][0]] = float(g['signs'][0])
      Sv = np.array([e_, e_ * (1 + g['perm'][1])])
      Dv = np.array([e_, -e_ * (1 + g['perm'][2])])
    b0 = np.array(g['base'], dtype=float)
    f.args = (np.array([[b0, b0 + v] for v in np.vstack([Sv, Dv])]),
              np.array([1, 1, -1, -1]))
    det['family'] = 'null-space design'
    j.count('null-space-designs')
  if spec.get('lattice'):
    det['lattice_levels'] = spec['lattice']
    if spec['ds']['seed'] % 2 and len(f.args) == 2:
      # the same displacement judged similar for one pair of points and
      # dissimilar for another (conflicting judgments are legal input)
      P_, y_ = np.asarray(f.args[0], dtype=float), np.asarray(f.args[1])
      if P_.ndim == 3 and (y_ == 1).any():
        a_ = P_[np.flatnonzero(y_ == 1)[0]]
        sh = np.zeros(d)
        sh[spec['ds']['seed'] % d] = 1.0
        f.args = (np.vstack([P_, (a_ + sh)[None]]), np.r_[y_, -1])
        j.count('lattice-echo-pair')
  del _cap['fD'][:]
  del _cap['fit'][:]
  api.set_judge(j, well_formed=not p['diagonal'])
  raised = None
  with Quiet():
    try:
      f.fit()
    except Exception as e:
      raised = e
  api.set_well_formed(False)
  est = f.est
  if p['diagonal']:
    if raised is not None:
      j.check('C14.diagonal', isinstance(raised, ValueError),
              dict(det, raised=repr(raised)[:200]),
              mechanism='diag-raised-' + type(raised).__name__)
      return
    M = est.get_mahalanobis_matrix()
    ok = (bool(np.all(np.isfinite(M))) and
          np.array_equal(M, np.diag(np.diag(M))) and
          bool(np.all(np.diag(M) >= 0)))
    j.check('C14.diagonal', ok, dict(det, M=M))
    L = est.components_
    j.check('C14.diagonal', bool(np.all(np.isfinite(L))), det)
    j.distinct(name, 'diag', repr(sorted(spec['params'].items(), key=repr)),
               spec['ds']['seed'])
    if j.sample is None:
      j.sample = dict(det, diag_of_M=np.diag(M))
    return
  if raised is not None:
    j.violated('C14.fit-returns', dict(det, raised=repr(raised)[:300]),
               mechanism='mmc-raised-' + type(raised).__name__)
    return
  M = est.get_mahalanobis_matrix()
  nM = max(np.abs(M).max(), 1e-300)
  lam = np.linalg.eigvalsh((M + M.T) / 2)
  j.check('C14.psd', lam.min() >= -1e-10 * nM and
          np.abs(M - M.T).max() <= 1e-9 * nM,
          dict(det, lambda_min=lam.min()))
  fits = [x for x in _cap['fit'] if x[0] == 'full']
  trace = list(_cap['fD'])
  if len(fits) != 1 or len(trace) < 2 or len(trace) % 2:
    j.skip('C14', 'trace-not-captured')
    return
  j.ok('C14.trace-captured')
  _, pairs, y = fits[0]
  pos = pairs[y == 1]
  neg = pairs[y == -1]
  S = pos[:, 0] - pos[:, 1]
  Dn = neg[:, 0] - neg[:, 1]
  A0 = trace[0][0]
  # the initial matrix is the documented option
  pts = np.unique(pairs.reshape(-1, d), axis=0)
  if isinstance(p['init'], str) and p['init'] == 'covariance':
    # few points (tiny pair sets): the covariance is singular and which of
    # its rounding-noise eigenvalues a pseudo-inverse keeps is decided at the
    # noise level of the eigen-solver - the "initial matrix" is then not a
    # well-defined function of the input (same regime as DESIGN 6, item 4)
    from ..oracles import psd
    Cp = np.atleast_2d(np.cov(pts, rowvar=False)) if len(pts) > 1 else None
    if Cp is None or psd.rank_in_noise_regime(Cp):
      j.skip('C14', 'covariance-init-rank-in-noise-regime')
      return
  A0h = E.harness_prior(p['init'], pts, d, seed)
  w0 = np.linalg.eigvalsh((A0h + A0h.T) / 2)
  j.close('C14.initial-matrix', A0, A0h,
          1e-9 * max(np.abs(A0h).max(), 1e-300) *
          max(1.0, 1e-3 * w0.max() / max(w0.min(), 1e-300)),
          dict(det, init=spec['params']['init']))
  t = _sumsq(A0, S) / 100.0

  def fD_ref(A):
    q = np.einsum('ij,jk,ik->i', Dn, A, Dn)
    return float(np.log(np.sqrt(np.maximum(q, 0)).sum() + 1e-6))

  accepted = A0
  n_acc = 0
  consistent = True
  amb = False
  why = None
  first_feasible = None
  for c in range(len(trace) // 2):
    A_old, f_old = trace[2 * c]
    cand, f_cand = trace[2 * c + 1]
    if not np.allclose(A_old, accepted, rtol=1e-12,
                       atol=1e-12 * max(np.abs(accepted).max(), 1e-300)):
      consistent = False
      why = why or 'cycle %d: current matrix is not the last accepted ' \
          'candidate' % c
      break
    ssq = _sumsq(cand, S)
    if abs(ssq - 1.01 * t) <= 1e-9 * t:
      amb = True
      break
    lc = np.linalg.eigvalsh((cand + cand.T) / 2)
    feasible = ssq <= 1.01 * t and lc.min() >= -1e-10 * max(
        np.abs(cand).max(), 1e-300)
    if c == 0:
      first_feasible = feasible
    g_old, g_cand = fD_ref(A_old), fD_ref(cand)
    if abs(g_cand - g_old) <= 1e-13 * max(abs(g_old), 1.0) and c > 0:
      amb = True
      break
    if feasible and (g_cand > g_old or c == 0):
      accepted = cand
      n_acc += 1
  if amb:
    j.skip('C14', 'acceptance-tie')
    return
  j.check('C14.trace-follows-scheme', consistent, dict(det, why=why))
  if not consistent:
    return
  # the last cycle's decision is not followed by another _fD call: the
  # result is either `accepted` as computed (decision replayed above)
  j.close('C14.result-last-accepted', M, accepted,
          1e-8 * max(np.abs(accepted).max(), 1e-300),
          dict(det, cycles=len(trace) // 2, accepted=n_acc))
  if not first_feasible:
    # precondition of the budget clause: "max_proj large enough for one
    # projection to converge".  Decide it independently: run the documented
    # alternating projection (similarity half-space, then PSD cone) from the
    # initial matrix with the same max_proj.
    if _reference_projection_converges(A0, S, t, p['max_proj']):
      j.violated('C14.first-projection-converges',
                 dict(det, why='the documented alternating projection reaches '
                      'the similarity budget from the initial matrix within '
                      'max_proj, but the first candidate of the solver is '
                      'infeasible', budget=t,
                      sum_sq_candidate=_sumsq(trace[1][0], S)),
                 mechanism='first-projection-infeasible')
    else:
      j.ok('C14.first-projection-converges')
  else:
    j.ok('C14.first-projection-converges')
  if first_feasible:
    ssqM = _sumsq(M, S)
    j.check('C14.budget', ssqM <= 1.01 * (1 + 1e-9) * t,
            dict(det, sum_sq=ssqM, budget=t))
    j.margin('C14.budget', ssqM / (1.01 * t))
  else:
    j.count('budget.out-of-domain(first-projection-infeasible)')
  # every cycle's candidate is the one the documented scheme produces
  # (sequential re-execution; compared until a decision is too close to call)
  ref = _reference_cycles(A0, S, Dn, t, p['max_iter'], p['max_proj'],
                          p['tol'])
  # the same re-execution from a start perturbed at the 1e-13 level: where
  # the two reference runs have drifted apart by more than 1e-9 the
  # trajectory amplifies rounding errors by more than four orders of
  # magnitude and a third run (the library's) cannot be expected to agree
  # to 1e-6 any more (thorough sweep, seed 1: 1.6e-5 at cycle 46 of a
  # two-dimensional run)
  rp_ = rng_for('c14-perturb', spec['ds']['seed'])
  Ep = rp_.randn(d, d)
  A0p = A0 * (1.0 + 1e-13 * (Ep + Ep.T) / 2)
  ref_p = _reference_cycles(A0p, S, Dn, t, p['max_iter'], p['max_proj'],
                            p['tol'])
  okc, whyc, ncmp = True, None, 0
  for c, rc in enumerate(ref):
    if 2 * c + 1 >= len(trace):
      break
    cand = trace[2 * c + 1][0]
    sc = max(np.abs(rc['cand']).max(), 1e-300)
    if rc['close']:
      break
    if c >= len(ref_p) or \
            np.abs(ref_p[c]['cand'] - rc['cand']).max() > 1e-9 * sc:
      j.count('candidates.rounding-amplifying-trajectory(stop)')
      break
    if rc['noisy']:
      # the step that led to this candidate used weights at the noise level
      # of a quadratic form: the library's candidate has to lie on the
      # segment between the two ends of the rounding envelope
      lo_ = _reference_cycles(A0, S, Dn, t, p['max_iter'], p['max_proj'],
                              p['tol'], noise_sign=-1)
      hi_ = _reference_cycles(A0, S, Dn, t, p['max_iter'], p['max_proj'],
                              p['tol'], noise_sign=+1)
      if len(lo_) <= c or len(hi_) <= c or lo_[c]['close'] or hi_[c]['close']:
        j.count('candidates.noise-level-weights(not comparable)')
        break
      a_, b_ = lo_[c]['cand'].ravel(), hi_[c]['cand'].ravel()
      ab = b_ - a_
      tt = 0.0 if not ab.any() else float(
          np.clip((cand.ravel() - a_).dot(ab) / ab.dot(ab), 0.0, 1.0))
      dev = np.abs(cand.ravel() - (a_ + tt * ab)).max()
      j.count('candidates.noise-level-weights(envelope)')
      ncmp += 1
      if dev > 1e-6 * sc + 0.05 * np.abs(ab).max():
        okc = False
        whyc = dict(cycle=c, envelope=True, max_rel_dev=float(dev / sc),
                    envelope_width=float(np.abs(ab).max() / sc))
      break
    ncmp += 1
    if np.abs(cand - rc['cand']).max() > 1e-6 * sc:
      okc = False
      whyc = dict(cycle=c, max_rel_dev=float(np.abs(cand - rc['cand']).max()
                                             / sc))
      break
  if ncmp:
    j.check('C14.candidates-follow-scheme', okc, dict(det, why=whyc,
                                                      cycles_compared=ncmp))
    j.count('c14.cycles-compared', ncmp)
  if first_feasible and spec.get('tight'):
    # "max_proj large enough for one projection to converge", with no slack:
    # the number of alternating projections the documented scheme needs from
    # this initial matrix, decided with a margin so that rounding cannot
    # move it by one
    need = _reference_need(A0, S, t, 3000)
    if need is None:
      j.skip('C14.tight-max_proj', 'need-undecided-or-too-large')
    else:
      from sklearn.base import clone
      e2 = clone(est).set_params(max_iter=1, max_proj=int(need))
      with api.paused(), Quiet():
        try:
          e2.fit(*f.args)
          M2 = e2.get_mahalanobis_matrix()
          j.check('C14.tight-max_proj',
                  _sumsq(M2, S) <= 1.01 * (1 + 1e-9) * t,
                  dict(det, need=need, sum_sq=_sumsq(M2, S), budget=t))
        except Exception as e:
          j.violated('C14.tight-max_proj', dict(det, need=need,
                                                raised=repr(e)[:200]))
  if n_acc > 0:
    j.distinct(name, repr(sorted(spec['params'].items(), key=repr)),
               spec['ds']['seed'])
  if j.sample is None:
    j.sample = dict(det, cycles=len(trace) // 2, accepted_candidates=n_acc,
                    budget_t=t, sum_sq_similar_under_M=_sumsq(M, S),
                    first_projection_feasible=first_feasible)


LEVEL_TEXT = ('Exploration by runtime monitoring with an offline trace '
              'checker: the dissimilarity objective of the real MMC solver '
              'is wrapped so that every cycle logs the current accepted '
              'matrix and the projected candidate; the checker replays the '
              'documented acceptance rule over the log (independent '
              'feasibility and objective evaluations) and requires the '
              'returned matrix to be the last accepted candidate, the first '
              'logged matrix to be the harness-recomputed init option, and '
              'the result to be PSD and within the similarity budget. '
              'diagonal=True results are checked for exact diagonality, '
              'non-negativity and absence of NaN. Held on the executions in '
              'the evidence file.')
LEVEL_NOTE = ('The budget clause is judged only when the first projection '
              'reached feasibility within max_proj (precondition of the '
              'property, made observable by the trace).')
TECHNIQUE = ('runtime monitoring: wrapped solver-internal objective as event '
             'source + offline trace checker replaying the documented '
             'acceptance rule')
