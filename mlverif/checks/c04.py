"""C04 -- tuple classifiers decide exactly by comparing learned distances."""
import numpy as np

from .. import common, estimators as E
from ..core import rng_for, Quiet
from ..instrument import api
from ..workloads import configs, data as D

ID = 'C04'
LEVEL = 'exploration'
RULE = ('cases = tuple learner (ITML, MMC, SDML, SCML, LSML) x option variant '
        'x dataset x {formed tuples, indices through an array preprocessor}. '
        'Pairs learners are driven through a history of threshold states '
        '(fit, calibrate_threshold with each strategy, set_threshold at '
        'exact test distances, their nextafter neighbours, midpoints, 0, -1, '
        '+inf); after each state predict / decision_function / score are '
        'compared exactly with the monitored pair_distance values of the '
        'same batch. Test tuples include identical points, repeated pairs, '
        'b==c triplets and (a,b)==(c,d) quadruplets. An evaluation is one '
        'exact comparison of one method output on one batch in one threshold '
        'state. distinct_nontrivial counts distinct (estimator, variant, '
        'dataset, input mode, threshold state) whose batch had both '
        'predicted classes or a tie.')
ASSUMPTIONS = ['two calls of pair_distance on equal batches return identical '
               'bits (deterministic BLAS, single thread)']
TIMEOUT = {'quick': 900, 'thorough': 3 * 3600}
setup_worker = common.setup_worker
LEARNERS = ['ITML', 'MMC', 'SDML', 'SCML', 'LSML']


def cases(tier, seed):
  out = []
  nds = 5 if tier == 'quick' else 100
  nt = 30 if tier == 'quick' else 200
  for name in LEARNERS:
    dss = common.ds_specs(seed, 'C04' + name, nds,
                          dmax=5 if tier == 'quick' else 8,
                          variants=('plain', 'int', 'dyadic', 'offset',
                                    'large_scale'))
    for di, ds in enumerate(dss):
      cfgs = configs.light(name, ds['d'], ds['classes'])
      if tier == 'quick':
        cfgs = [cfgs[di % len(cfgs)]]
      for ci, cfg in enumerate(cfgs):
        for prep in (None, 'array'):
          out.append({'est': name, 'params': cfg, 'ds': ds,
                      'seed': seed % 1000, 'prep': prep, 'nt': nt,
                      'qseed': int(rng_for('q4', seed, name, di, ci)
                                   .randint(2**31 - 1))})
  return out


def required(tier):
  n = 20 if tier == 'quick' else 200
  return {'C04.pairs.predict': 10 * n, 'C04.pairs.decision': 10 * n,
          'C04.pairs.score-auc': n, 'C04.pairs.monotone': 10 * n,
          'C04.pairs.set_threshold-stored': 10 * n,
          'C04.pairs.set_threshold-rejects': n,
          'C04.triplets.decision': n // 4, 'C04.triplets.predict': n // 4,
          'C04.triplets.score': n // 4, 'C04.triplets.swap': n // 4,
          'C04.quadruplets.decision': n // 4,
          'C04.quadruplets.predict': n // 4, 'C04.quadruplets.swap': n // 4}


def auc_ref(dec, y):
  pos = dec[y == 1]
  neg = dec[y == -1]
  if len(pos) == 0 or len(neg) == 0:
    return None
  s = 0.0
  for p in pos:
    s += np.sum(p > neg) + 0.5 * np.sum(p == neg)
  return s / (len(pos) * len(neg))


def _test_tuples(rng, X, y, size, n):
  """Index tuples into X with deliberate ties."""
  N = len(X)
  idx = rng.randint(0, N, size=(n, size))
  if size == 2:
    idx[: n // 6, 1] = idx[: n // 6, 0]            # identical points
    idx[n // 6: n // 3] = idx[n // 3: n // 3 + (n // 3 - n // 6)]  # repeats
  elif size == 3:
    idx[: n // 5, 2] = idx[: n // 5, 1]            # b == c  (tie)
    idx[n // 5: 2 * n // 5, 1] = idx[n // 5: 2 * n // 5, 0]   # a == b
  else:
    idx[: n // 5, 2:] = idx[: n // 5, :2]          # (a,b) == (c,d)
    idx[n // 5: 2 * n // 5, 2:] = idx[n // 5: 2 * n // 5, 1::-1]  # swapped
  return idx


def run_case(spec, j):
  name = spec['est']
  ds = common.dataset(spec['ds'])
  prep = spec.get('prep')
  f, _ = common.fit(spec, j, ds=ds, preprocessor=prep)
  if f is None:
    return
  est = f.est
  if not np.all(np.isfinite(est.components_)):
    j.skip('C04', 'degenerate-model')
    return
  api.set_judge(j)
  X = np.asarray(ds['X'])
  rng = rng_for('c4', spec['qseed'])
  size = E.TUPLE_SIZE[E.KIND[name]]
  idx = _test_tuples(rng, X, ds['y'], size, spec['nt'])
  formed = X[idx]

  # query tuples in float64, float32 or the dtype of the data: every relation
  # below compares outputs for the *same* input array, so it stays exact
  qdt = [np.float64, np.float32, None][spec['qseed'] % 3]

  def arg(ix):
    if prep:
      return ix
    return X[ix] if qdt is None else X[ix].astype(qdt)
  T = arg(idx)
  det = {'est': name, 'params': spec.get('params'), 'prep': prep,
         'query_dtype': str(np.dtype(qdt)) if qdt and not prep else 'as-data'}
  key = (name, repr(spec.get('params')), spec['ds']['seed'], prep)
  with Quiet():
    # the number of tuples in a call is arbitrary (seams of blocked code)
    for nb in (1, 1023, 1024, 2048):
      ib = np.resize(np.arange(len(idx)), nb)
      try:
        big_dec = est.decision_function(arg(idx[ib]))
        big_pred = est.predict(arg(idx[ib]))
        ref_dec = est.decision_function(T)[ib]
        ref_pred = est.predict(T)[ib]
        # (decisions within rounding of the boundary may legitimately flip
        # when the linear algebra library blocks differently)
        clear = np.abs(ref_dec) > 1e-9 * np.abs(ref_dec[np.isfinite(
            ref_dec)]).max(initial=0.0)
        if size == 2:
          clear = np.abs(-ref_dec - est.threshold_) > 1e-9 * max(
              abs(est.threshold_), 1e-300)
        j.check('C04.batch-size',
                np.array_equal(big_pred[clear], ref_pred[clear]) and
                np.allclose(big_dec, ref_dec, rtol=1e-12, atol=0,
                            equal_nan=True),
                dict(det, size=nb))
      except Exception as e:
        j.violated('C04.batch-size', dict(det, size=nb, raised=repr(e)[:200]))
    if not prep:
      # 64-bit integer coordinates of either sign up to the limits of the
      # dtype (identifiers, nanosecond timestamps): the same numbers as
      # floats give the same decisions - the differences of such integers do
      # not fit the integer type
      TI = rng.randint(-2**63, 2**63 - 1, size=(8, size, X.shape[1]),
                       dtype=np.int64)
      TI[0, 0], TI[0, 1] = np.iinfo(np.int64).min, np.iinfo(np.int64).max
      try:
        di, df = est.decision_function(TI), \
            est.decision_function(TI.astype(float))
        pi_, pf = est.predict(TI), est.predict(TI.astype(float))
        j.check('C04.wide-integers',
                np.array_equal(di, df, equal_nan=True) and
                np.array_equal(pi_, pf, equal_nan=True),
                dict(det, decision_int=di[:3], decision_float=df[:3]))
      except Exception as e:
        j.violated('C04.wide-integers', dict(det, raised=repr(e)[:200]))
    if size == 2:
      _pairs(j, est, T, arg, idx, ds, rng, det, key)
    elif size == 3:
      dab = est.pair_distance(arg(idx[:, [0, 1]]))
      dac = est.pair_distance(arg(idx[:, [0, 2]]))
      dec = est.decision_function(T)
      j.check('C04.triplets.decision', np.array_equal(dec, dac - dab), det)
      pred = est.predict(T)
      j.check('C04.triplets.predict',
              np.array_equal(pred, np.where(dec > 0, 1, -1)), det)
      sc = est.score(T)
      j.close('C04.triplets.score', sc, np.mean(pred == 1), 1e-12, det)
      dsw = est.decision_function(arg(idx[:, [0, 2, 1]]))
      j.check('C04.triplets.swap', np.array_equal(dsw, -dec), det)
      # predicts +1 exactly when d(a,b) < d(a,c)
      j.check('C04.triplets.predict',
              np.array_equal(pred == 1, dab < dac), det)
      if (dec == 0).any() or len(set(pred.tolist())) > 1:
        j.distinct(*key)
      if j.sample is None:
        j.sample = dict(det, triplet=formed[0], d_ab=dab[0], d_ac=dac[0],
                        decision=dec[0], predict=pred[0])
    else:
      dab = est.pair_distance(arg(idx[:, [0, 1]]))
      dcd = est.pair_distance(arg(idx[:, [2, 3]]))
      dec = est.decision_function(T)
      j.check('C04.quadruplets.decision', np.array_equal(dec, dcd - dab), det)
      pred = est.predict(T)
      j.check('C04.quadruplets.predict',
              np.array_equal(pred, np.sign(dcd - dab)), det)
      dsw = est.decision_function(arg(idx[:, [2, 3, 0, 1]]))
      j.check('C04.quadruplets.swap', np.array_equal(dsw, -dec), det)
      if (dec == 0).any() or len(set(pred.tolist())) > 1:
        j.distinct(*key)
      if j.sample is None:
        j.sample = dict(det, quadruplet=formed[0], d_ab=dab[0], d_cd=dcd[0],
                        decision=dec[0], predict=pred[0])


def _pairs(j, est, T, arg, idx, ds, rng, det, key):
  y = ds['y']
  ylab = np.where(y[idx[:, 0]] == y[idx[:, 1]], 1, -1)
  Dm = est.pair_distance(T)
  states = [('fit', None)]
  for strat, kw in (('accuracy', {}), ('f_beta', {'beta': 2.0}),
                    ('max_tpr', {'min_rate': 0.5}),
                    ('max_tnr', {'min_rate': 0.3})):
    states.append(('calibrate:' + strat, dict(kw, strategy=strat)))
  finite = np.unique(Dm[np.isfinite(Dm)])
  picks = finite[rng.permutation(len(finite))[:4]]
  for t in picks:
    states += [('set:exact', float(t)),
               ('set:next-up', float(np.nextafter(t, np.inf))),
               ('set:next-down', float(np.nextafter(t, -np.inf)))]
  if len(finite) > 1:
    states.append(('set:midpoint', float((finite[0] + finite[1]) / 2)))
  states += [('set:zero', 0.0), ('set:negative', -1.0),
             ('set:inf', float('inf')), ('set:int', 3),
             ('set:np.float32', np.float32(0.5)), ('set:str-number', '1.5')]
  order = np.argsort(Dm, kind='stable')
  for label, arg_ in states:
    if label.startswith('calibrate'):
      if len(set(ylab.tolist())) < 2:
        continue
      est.calibrate_threshold(T, ylab, **arg_)
    elif label.startswith('set'):
      r = est.set_threshold(arg_)
      j.check('C04.pairs.set_threshold-stored',
              r is est and isinstance(est.threshold_, float) and
              est.threshold_ == float(arg_), dict(det, t=arg_,
                                                  stored=est.threshold_))
    thr = est.threshold_
    try:
      D2 = est.pair_distance(T)
      pred = est.predict(T)
      dec = est.decision_function(T)
    except Exception as e:
      # a threshold has been set: every classifier method must answer
      j.violated('C04.pairs.predict',
                 dict(det, state=label, thr=thr, raised=repr(e)[:200]),
                 mechanism='pairs-classifier-raised-' + type(e).__name__)
      continue
    j.check('C04.pairs.predict',
            np.array_equal(pred, np.where(D2 <= thr, 1, -1)),
            dict(det, state=label, thr=thr))
    j.check('C04.pairs.decision', np.array_equal(dec, -D2),
            dict(det, state=label))
    ps = pred[order]
    j.check('C04.pairs.monotone', bool(np.all(np.diff(ps) <= 0)),
            dict(det, state=label))
    if (D2 == thr).any() or len(set(pred.tolist())) > 1:
      j.distinct(*(key + (label,)))
  ref = auc_ref(-Dm, ylab)
  if ref is not None:
    sc = est.score(T, ylab)
    j.close('C04.pairs.score-auc', sc, ref, 1e-12, det)
  for bad in ('abc', None, [1.0, 2.0], object(), {'a': 1}, np.array([1., 2.])):
    try:
      est.set_threshold(bad)
      j.violated('C04.pairs.set_threshold-rejects',
                 dict(det, value=repr(bad)[:40], why='accepted'))
    except ValueError:
      j.ok('C04.pairs.set_threshold-rejects')
    except Exception as e:
      j.violated('C04.pairs.set_threshold-rejects',
                 dict(det, value=repr(bad)[:40], raised=type(e).__name__))
  if j.sample is None:
    j.sample = dict(det, pair=np.asarray(ds['X'])[idx[0]], distance=Dm[0],
                    threshold=est.threshold_, states=[s for s, _ in states])


LEVEL_TEXT = ('Exploration by runtime monitoring: the outputs of predict / '
              'decision_function / score of the real tuple classifiers are '
              'compared bit-for-bit with the decision rule evaluated on the '
              'monitored pair_distance values of the same batch, across a '
              'history of threshold states that puts the threshold exactly '
              'on, one ulp above and one ulp below observed distances, and '
              'on batches with exact ties. Held on the executions in the '
              'evidence file.')
LEVEL_NOTE = ('Comparisons are exact (array_equal); the AUC reference is an '
              'independent O(n^2) Mann-Whitney count with ties 1/2; assumes '
              'repeated calls on equal batches are bitwise reproducible '
              '(single-threaded BLAS).')
TECHNIQUE = ('runtime monitoring: exact decision-rule oracle over monitored '
             'distances along threshold-state histories with engineered ties')
