"""C02 -- all views of the learned metric agree with M = L^T L."""
import numpy as np

from .. import common, estimators as E
from ..core import rng_for, Quiet
from ..instrument import api
from ..instrument.prep import MonitoredPreprocessor
from ..workloads import configs, data as D

ID = 'C02'
LEVEL = 'exploration'
RULE = ('cases = estimator x option variant x seeded well-formed dataset; per '
        'fitted model batches of query pairs of 7 classes; for every pair the '
        'six views (pair_distance, metric_fun, sqrt(metric_fun squared), '
        '||transform(u)-transform(v)||, sqrt((u-v)^T M (u-v)), score_pairs) '
        'are compared with forward-error bounds; every batch is re-submitted '
        'as nested list / int64 / Fortran / negatively strided / every-other-'
        'row view / single-pair batches / indices through array and callable '
        'preprocessors. An evaluation is one comparison of one view (or input '
        'form) on one batch. distinct_nontrivial counts distinct (estimator, '
        'option variant, dataset, query class) with a non-zero finite L and '
        'a batch with non-zero distances.')
ASSUMPTIONS = ['forward error bound 64*eps*||L||_F*(|u|+|v|) between routes '
               'that subtract after transforming, 64*eps*||L||_F*|u-v| '
               'between routes that transform the difference; squared '
               'distances compared for the quadratic-form route']
TIMEOUT = {'quick': 900, 'thorough': 3 * 3600}
EPS = np.finfo(float).eps
setup_worker = common.setup_worker

QCLASSES = ['train', 'gauss', 'dup', 'far', 'magnitude', 'int', 'axis']


def cases(tier, seed):
  out = []
  nds = 2 if tier == 'quick' else 24
  nq = 16 if tier == 'quick' else 150
  variants = ('plain', 'unbalanced', 'offset', 'small_scale', 'large_scale',
              'illcond', 'int', 'dyadic')
  for ei, name in enumerate(E.ALL):
    dss = common.ds_specs(seed, 'C02' + name, nds,
                          dmax=5 if tier == 'quick' else 8,
                          variants=variants if tier != 'quick'
                          else (variants[(ei + 1) % 8], variants[(ei + 5) % 8]))
    # one-feature data is as legal as any for the identities between the
    # views (formed points of shape (n, 1) look like a column of indicators)
    if tier != 'quick' or ei % 3 == seed % 3:
      dss = list(dss) + [dict(dss[0], d=1, classes=2, variant='plain',
                              seed=dss[0]['seed'] + 97)]
    for di, ds in enumerate(dss):
      if tier == 'quick':
        cfgs = configs.light(name, ds['d'], ds['classes'])
        cfgs = [cfgs[0], cfgs[-1]] if len(cfgs) > 1 else cfgs
      else:
        full = configs.product(name, ds['d'], ds['classes'])
        cfgs = configs.light(name, ds['d'], ds['classes']) + \
            configs.pairwise_cover(full, rng_for('cov', seed, name, di))[:6]
      for ci, cfg in enumerate(cfgs):
        out.append({'est': name, 'params': cfg, 'ds': ds, 'seed': seed % 1000,
                    'nq': nq, 'qseed': int(rng_for('q2', seed, name, di,
                                                   ci).randint(2**31 - 1))})
  return out


def required(tier):
  n = 30 if tier == 'quick' else 200
  return {k: n for k in
          ['C02.closure', 'C02.closure-squared', 'C02.transform-route',
           'C02.quadratic-form', 'C02.score_pairs', 'C02.score_pairs-warning',
           'C02.transform-linear', 'C02.M=LtL', 'C02.M-symmetric',
           'C02.M-psd', 'C02.form.list', 'C02.form.fortran',
           'C02.form.strided', 'C02.form.single', 'C02.form.int',
           'C02.form.prep-array', 'C02.form.prep-callable',
           'C02.form.float32', 'C02.form.float32-transform',
           'C02.batch-size', 'C02.closure-mixed-dtypes']}


def run_case(spec, j):
  ds = common.dataset(spec['ds'])
  f, _ = common.fit(spec, j, ds=ds)
  if f is None:
    return
  est = f.est
  L = est.components_
  if not (isinstance(L, np.ndarray) and L.dtype.kind == 'f' and L.ndim == 2
          and np.all(np.isfinite(L))):
    j.skip('C02', 'degenerate-model')
    return
  k, d = L.shape
  Lf = np.linalg.norm(L)
  api.set_judge(j)
  det0 = {'est': spec['est'], 'params': spec.get('params')}
  with Quiet():
    M = est.get_mahalanobis_matrix()
  # --- M = L^T L by explicit loops, symmetric, PSD
  Mref = np.zeros((d, d))
  Mabs = np.zeros((d, d))
  for a in range(d):
    for b in range(d):
      s = 0.0
      sa = 0.0
      for r in range(k):
        s += L[r, a] * L[r, b]
        sa += abs(L[r, a] * L[r, b])
      Mref[a, b] = s
      Mabs[a, b] = sa
  j.close('C02.M=LtL', M, Mref, 4 * EPS * max(k, 1) * Mabs + 1e-300, det0)
  # ... at every call, whatever the caller did to an earlier answer
  M_scribble = est.get_mahalanobis_matrix()
  M_scribble[...] = -7.0
  j.close('C02.M=LtL', est.get_mahalanobis_matrix(), Mref,
          4 * EPS * max(k, 1) * Mabs + 1e-300,
          dict(det0, after='the caller overwrote the matrix returned before'))
  nM = max(np.abs(M).max(), 1e-300)
  j.close('C02.M-symmetric', M, M.T, 4 * EPS * nM, det0)
  lam = np.linalg.eigvalsh((M + M.T) / 2) if d else np.zeros(0)
  j.check('C02.M-psd', lam.min() >= -8 * EPS * nM * d,
          dict(det0, lambda_min=lam.min(), normM=nM))
  j.margin('C02.M-psd', max(0.0, -lam.min()) / (8 * EPS * nM * d))
  metric = est.get_metric()
  cfg_key = repr(sorted((a, repr(b)[:20]) for a, b in
                        (spec.get('params') or {}).items()))

  # a twin fitted through a preprocessor holding training + query points
  pool_q = {}
  qclasses = list(QCLASSES)
  for qc in QCLASSES + ['nullspace']:
    rng = rng_for('query2', spec['qseed'], qc)
    if qc == 'nullspace':
      T = D.nullspace_triples(rng, f.X, L, spec['nq'])
      if T is None:
        continue
      qclasses.append(qc)
    else:
      T = D.query_triples(rng, f.X, spec['nq'], qc)
    pool_q[qc] = T[:, :2]
  Xtrain = np.asarray(ds['X'])
  pool = np.vstack([Xtrain.astype(float)] +
                   [pool_q[qc].reshape(-1, d) for qc in qclasses])
  twins = {}
  for kind in ('array', 'callable'):
    try:
      mp = None
      if kind == 'array':
        tw = _twin_fit(spec, ds, pool, j, prep=pool)
      else:
        mp = MonitoredPreprocessor(pool)
        tw = _twin_fit(spec, ds, pool, j, prep=mp)
      twins[kind] = (tw, mp)
    except Exception as e:
      j.skip('C02.form.prep-' + kind, 'twin-fit-raised-%s' % type(e).__name__)
      j.note('twin fit raised %r' % (e,))
  api.set_judge(j)

  offset = len(Xtrain)
  for qc in qclasses:
    P = pool_q[qc]
    n = len(P)
    u, v = P[:, 0], P[:, 1]
    delta = u - v
    nd = np.linalg.norm(delta, axis=1)
    scale = Lf * nd
    ok_range = (scale < 1e140) & ((scale > 1e-140) | (scale == 0)) & \
        (Lf * (np.linalg.norm(u, axis=1) + np.linalg.norm(v, axis=1)) < 1e140)
    if not ok_range.any():
      j.skip('C02', 'batch-out-of-range')
      offset += 2 * n
      continue
    det = dict(det0, qclass=qc)
    tol_diff = 64 * EPS * Lf * nd + 1e-300
    tol_sub = 64 * EPS * Lf * (np.linalg.norm(u, axis=1) +
                               np.linalg.norm(v, axis=1)) + 1e-300
    with Quiet() as q:
      d1 = est.pair_distance(P)
    sel = ok_range
    # closure plain and squared
    with np.errstate(all='ignore'):
      dc = np.array([metric(u[i], v[i]) for i in range(n)])
      dsq = np.array([metric(u[i], v[i], squared=True) for i in range(n)])
    j.close('C02.closure', dc[sel], d1[sel], tol_diff[sel], det)
    # the two arguments of one call may be stored differently (an integer
    # grid point and a measured point, a float32 and a float64 vector): each
    # is the number it holds, whatever the other one is
    if qc in ('train', 'gauss', 'int'):
      mixed_ok, why_m = True, None
      with np.errstate(all='ignore'):
        for i in range(min(n, 6)):
          ui = np.round(u[i])
          if np.abs(ui).max() < 2 ** 31 and np.all(np.isfinite(v[i])):
            ref_a = metric(ui, v[i])
            for form in (ui.astype(np.int64), ui.astype(np.int64).tolist(),
                         ui.astype(np.int32)):
              a_, b_ = metric(form, v[i]), metric(v[i], form)
              if not (a_ == ref_a and b_ == metric(v[i], ui)):
                mixed_ok, why_m = False, ('int/float', i, a_, ref_a)
          u32 = u[i].astype(np.float32)
          if np.all(np.isfinite(u32)) and np.all(np.isfinite(v[i])):
            ref_b = metric(u32.astype(np.float64), v[i])
            a_, b_ = metric(u32, v[i]), metric(v[i], u32)
            if not (a_ == ref_b and b_ == metric(v[i], u32.astype(float))):
              mixed_ok, why_m = False, ('float32/float64', i, a_, ref_b)
      j.check('C02.closure-mixed-dtypes', mixed_ok, dict(det, why=why_m))
    j.close('C02.closure-squared', dsq[sel], dc[sel] ** 2,
            8 * EPS * dc[sel] ** 2 + 1e-300, det)
    # transform route
    with Quiet():
      tu, tv = est.transform(u), est.transform(v)
    dt = np.sqrt(((tu - tv) ** 2).sum(axis=1))
    j.close('C02.transform-route', dt[sel], d1[sel], tol_sub[sel], det)
    # quadratic form with the returned M (squared distances compared)
    qf = np.einsum('ij,jk,ik->i', delta, M, delta)
    j.close('C02.quadratic-form', qf[sel], d1[sel] ** 2,
            64 * EPS * d * (Lf * nd[sel]) ** 2 + 1e-300, det)
    # transform is the linear map X -> X L^T (explicit loop)
    m = min(n, 6)
    tref = np.zeros((m, k))
    tabs = np.zeros((m, k))
    for i in range(m):
      for r in range(k):
        s = 0.0
        sa = 0.0
        for c in range(d):
          s += u[i, c] * L[r, c]
          sa += abs(u[i, c] * L[r, c])
        tref[i, r] = s
        tabs[i, r] = sa
    fin = np.isfinite(tabs).all(axis=1) & (tabs.max(axis=1, initial=0) < 1e300)
    j.check('C02.transform-shape', tu.shape == (n, k), dict(det, shape=tu.shape))
    if fin.any():
      j.close('C02.transform-linear', tu[:m][fin], tref[fin],
              8 * EPS * d * tabs[fin] + 1e-300, det)
    # deprecated score_pairs: same numbers + exactly one FutureWarning
    with Quiet() as q:
      sp = est.score_pairs(P)
    j.check('C02.score_pairs', np.array_equal(sp, d1, equal_nan=True), det)
    fw = q.of(FutureWarning)
    j.check('C02.score_pairs-warning', len(fw) == 1,
            dict(det, n_futurewarnings=len(fw)))
    # ---- alternative input forms ------------------------------------------
    rel = 1e-12

    def same(mon, got, ref=d1, idx=None):
      r = ref if idx is None else ref[idx]
      s_ = sel if idx is None else sel[idx]
      t_ = tol_diff if idx is None else tol_diff[idx]
      j.close(mon, np.asarray(got)[s_], r[s_], rel * np.abs(r[s_]) + t_[s_],
              det)

    with Quiet():
      same('C02.form.list', est.pair_distance(P.tolist()))
      same('C02.form.fortran', est.pair_distance(np.asfortranarray(P)))
      big = np.zeros((2 * n, 2, 2 * d))
      big[::2, :, ::2] = P
      same('C02.form.strided', est.pair_distance(big[::2, :, ::2]))
      rev = P[::-1].copy()
      same('C02.form.strided', est.pair_distance(rev[::-1]))
      singles = np.array([est.pair_distance(P[i:i + 1])[0]
                          for i in range(min(n, 8))])
      same('C02.form.single', singles, idx=np.arange(min(n, 8)))
      if qc in ('train', 'gauss'):
        # the number of pairs in a call is arbitrary: powers of two and
        # their neighbours, where blocked implementations have their seams
        for size in (2, 255, 256, 257, 1023, 1024, 1025, 2048, 4097):
          ib = np.resize(np.arange(n), size)
          try:
            got = est.pair_distance(P[ib])
            gs = est.pair_score(P[ib])
            gt = est.transform(P[ib, 0])
          except Exception as e:
            j.violated('C02.batch-size', dict(det, size=size,
                                              raised=repr(e)[:200]))
            continue
          okb = got.shape == (size,) and gt.shape == (size, k) and \
              np.array_equal(gs, -got, equal_nan=True)
          j.check('C02.batch-size', bool(okb), dict(det, size=size,
                                                    shape=got.shape))
          j.close('C02.batch-size', got[sel[ib]], d1[ib][sel[ib]],
                  rel * np.abs(d1[ib][sel[ib]]) + tol_diff[ib][sel[ib]],
                  dict(det, size=size))
      if qc == 'int' or np.all(P == np.round(P)) and np.abs(P).max() < 2**53:
        Pi = P.astype(np.int64)
        same('C02.form.int', est.pair_distance(Pi))
        ti = est.transform(Pi[:, 0])
        j.close('C02.form.int', ti, tu, rel * np.abs(tu) + 8 * EPS * d *
                Lf * np.linalg.norm(u, axis=1)[:, None] + 1e-300, det)
      # narrower float dtypes: same numbers, exactly representable in float64
      P32 = P.astype(np.float32)
      if np.all(np.isfinite(P32)):
        ref32 = est.pair_distance(P32.astype(np.float64))
        nd32 = np.linalg.norm(P32[:, 0].astype(float) -
                              P32[:, 1].astype(float), axis=1)
        ok32 = (Lf * nd32 < 1e30) & ((Lf * nd32 > 1e-30) | (nd32 == 0))
        # (the library subtracts the two points in the dtype it is given:
        # float32 rounding of the difference, at the scale of the points)
        e32 = float(np.finfo(np.float32).eps)
        nuv = (np.linalg.norm(P32[:, 0].astype(float), axis=1) +
               np.linalg.norm(P32[:, 1].astype(float), axis=1))
        j.close('C02.form.float32', est.pair_distance(P32)[ok32], ref32[ok32],
                8 * e32 * Lf * nuv[ok32] + 1e-6 * np.abs(ref32[ok32]) +
                1e-300, det)
        # transform does no arithmetic in the input dtype: on float32 points
        # it must equal transform of the same numbers held in float64
        u32 = P32[:, 0]
        t32 = np.asarray(est.transform(u32), dtype=float)
        t64 = est.transform(u32.astype(np.float64))
        bound = 8 * EPS * d * (np.abs(u32.astype(float)).dot(np.abs(L).T))
        okt = np.isfinite(bound).all(axis=1) & (bound.max(axis=1,
                                                          initial=0) < 1e300)
        if okt.any():
          j.close('C02.form.float32-transform', t32[okt], t64[okt],
                  bound[okt] + 1e-300, det)
      for kind, (tw, mp) in twins.items():
        idx = offset + np.arange(2 * n).reshape(n, 2)
        before = mp.n_calls if mp is not None else 0
        got = tw.pair_distance(idx)
        # The twin is a separate fit (ARPACK start vectors, optimiser paths
        # and BLAS kernels differ with the memory layout of what it was
        # given), so the view "pairs as indices" is compared with the same
        # twin's distances on the formed pairs; that the two fits agree is
        # C05's business.
        ref_tw = tw.pair_distance(pool[idx])
        Ltw = np.linalg.norm(tw.components_)
        j.close('C02.form.prep-' + kind, np.asarray(got)[sel], ref_tw[sel],
                1e-12 * np.abs(ref_tw[sel]) + 64 * EPS * Ltw * nd[sel] +
                1e-300, det)
        if mp is not None:
          j.check('C02.form.prep-consulted', mp.n_calls > before, det)
        # formed points with whole-number coordinates in an integer dtype
        # are formed points for a learner with a preprocessor as well
        Pw = np.minimum(np.abs(np.round(pool[idx[:, 0]])), 100)
        tw_i = tw.transform(Pw.astype(np.int64))
        tw_f = tw.transform(Pw)
        j.check('C02.form.prep-' + kind,
                np.array_equal(tw_i, tw_f, equal_nan=True),
                dict(det, why='transform of formed integer-valued points',
                     shape=Pw.shape))
        # structured index columns (runs, runs with a repeat and a skip,
        # constants): same points, whatever shortcut the indexing takes
        o = int(offset)
        cols = [np.arange(o, o + 5), np.array([o, o, o + 2, o + 3, o + 4]),
                np.array([o + 1, o + 1, o + 3, o + 4, o + 5]),
                np.full(5, o + 2), np.arange(o + 4, o - 1, -1)]
        for a_ in range(len(cols)):
          ix = np.column_stack([cols[a_], cols[(a_ + 1) % len(cols)]])
          ix = np.minimum(ix, len(pool) - 1)
          g2 = tw.pair_distance(ix)
          r2 = tw.pair_distance(pool[ix])
          j.check('C02.form.prep-' + kind,
                  np.array_equal(g2, r2, equal_nan=True),
                  dict(det, indices=ix))
    offset += 2 * n
    if np.any(d1[np.isfinite(d1)] > 0) and np.any(L != 0):
      j.distinct(spec['est'], cfg_key, spec['ds']['seed'], qc)
    if j.sample is None and qc == 'gauss':
      j.sample = {'est': spec['est'], 'params': spec.get('params'),
                  'L_shape': L.shape, 'pair': P[0],
                  'views': {'pair_distance': d1[0], 'metric_fun': dc[0],
                            'metric_fun_squared': dsq[0],
                            'transform_route': dt[0],
                            'quadratic_form': qf[0], 'score_pairs': sp[0]}}


def _twin_fit(spec, ds, pool, j, prep):
  """Same estimator fitted through a preprocessor over `pool` (training rows
  first), data given as indices."""
  rng = rng_for('build', spec['ds']['seed'], spec.get('seed', 0), spec['est'])
  f = E.build(spec['est'], ds, rng, params=spec.get('params'),
              seed=spec.get('seed', 0), n_tuples=spec.get('n_tuples'),
              preprocessor=lambda X: prep)
  api.set_judge(j, well_formed=True)
  with Quiet():
    f.fit()
  api.set_well_formed(False)
  return f.est


LEVEL_TEXT = ('Exploration by runtime monitoring: for every estimator the six '
              'documented views of the learned metric are evaluated by the '
              'real methods on the same pairs and compared by a forward-error '
              'oracle; transform and get_mahalanobis_matrix are compared with '
              'explicit-loop evaluations of X L^T and L^T L; every batch is '
              're-submitted in eight alternative input forms. Held on the '
              'executions in the evidence file.')
LEVEL_NOTE = ('Trusts IEEE-754 arithmetic and the stated forward-error '
              'bounds (>100x margin over the worst deviation observed, '
              'reported as worst_margin); the quadratic-form route is '
              'compared on squared distances because sqrt amplifies rounding '
              'for differences in the null space of a low-rank L.')
TECHNIQUE = ('runtime monitoring: differential oracle across the public '
             'views of one fitted object + explicit-loop reference, under '
             'seeded hostile query workloads and input-form variations')
