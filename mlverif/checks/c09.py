"""C09 -- closed-form learners compute their documented formula."""
import numpy as np

from .. import common
from ..core import rng_for, Quiet
from ..instrument import api, frame
from ..oracles import closed_form as CF
from ..oracles.psd import penrose_residuals, ambiguous_rank, explicit_cov
from ..workloads import data as D

EPS = np.finfo(float).eps
ID = 'C09'
LEVEL = 'exploration'
RULE = ('cases = Covariance on full-rank and exactly rank-deficient data '
        '(duplicated column, n <= d, d = 1); RCA / RCA_Supervised over chunk '
        'layouts (unequal sizes, -1 entries, non-contiguous ids) x '
        'n_components; LFDA over class layouts (unbalanced, classes of size '
        '<= k) x k x embedding_type x n_components. The learned matrix is '
        'compared with independent O(n^2) loop evaluations of the documented '
        'definitions (Penrose conditions; chunk-wise scatter and generalised '
        'eigen-subspace; pairwise local scatter matrices). For LFDA the '
        'affinity matrix and local scale actually used are read from the fit '
        'frame (sys.monitoring LINE event) so that the chain documented '
        'sigma -> affinity -> scatter -> metric is judged link by link. An '
        'evaluation is one link judged on one fit. distinct_nontrivial '
        'counts distinct (estimator, configuration, dataset) with a '
        'non-degenerate reference (eigen-gap / rank not ambiguous).')
ASSUMPTIONS = ['comparisons are basis- and sign-free (matrices M, not L); '
               'cases whose retained eigen-subspace is not well separated '
               '(relative gap < 1e-6) or whose rank is ambiguous are counted '
               'as inconclusive']
TIMEOUT = {'quick': 900, 'thorough': 3 * 3600}
_lfda = {'caps': [], 'code': None}


def setup_worker(tier=None):
  common.setup_worker(tier)
  from metric_learn.lfda import LFDA

  def sink(vals, missing):
    _lfda['caps'].append((vals, missing))
  fit = LFDA.fit
  fit = getattr(fit, '__verif_wrapped__', fit)
  _lfda['code'] = frame.capture_at_line(
      fit, ['A', 'sigma', 'dist', 'k', 'c', 'Xc', 'nc'], sink,
      'A[local_scale == 0] = 0')


def cases(tier, seed):
  out = []
  q = tier == 'quick'
  n_cov, n_rca, n_lfda = (24, 24, 40) if q else (2400, 5000, 10000)
  for i in range(n_cov):
    out.append({'kind': 'cov', 'i': i, 'seed': seed,
                'mode': ['full', 'dupcol', 'n<=d', 'd=1', 'zero-var',
                         'wide-scales', 'd=1-zero-var'][i % 7]})
  for i in range(n_rca):
    out.append({'kind': 'rca', 'i': i, 'seed': seed,
                'supervised': bool(i % 3 == 2)})
  for i in range(n_lfda):
    out.append({'kind': 'lfda', 'i': i, 'seed': seed})
  for i in range(8 if q else 480):
    out.append({'kind': 'rca-degenerate', 'i': i, 'seed': seed, 'n': 25})
  return out


def required(tier):
  q = tier == 'quick'
  return {'C09.cov.penrose': 10 if q else 120,
          'C09.cov.reciprocal-spectrum': 10 if q else 120,
          'C09.rca.full': 6 if q else 100,
          'C09.rca.reduced': 6 if q else 100,
          'C09.rca.whitens': 12 if q else 250,
          'C09.lfda.affinity-from-sigma': 25 if q else 600,
          'C09.lfda.metric-from-affinity': 25 if q else 600,
          'C09.lfda.frame-captured': 25 if q else 600,
          'C09.lfda.order': 10 if q else 250,
          'C09.rca.degenerate': 80 if q else 500}


def run_case(spec, j):
  api.set_judge(j)
  {'cov': _cov, 'rca': _rca, 'lfda': _lfda_case,
   'rca-degenerate': _rca_degenerate}[spec['kind']](spec, j)


# ---------------------------------------------------------------- Covariance
def _cov(spec, j):
  from metric_learn import Covariance
  rng = rng_for('c9cov', spec['seed'], spec['i'])
  mode = spec['mode']
  d = int(rng.randint(2, 9))
  n = int(rng.randint(4 * d, 6 * d + 5))
  X = rng.randn(n, d) * np.exp(rng.uniform(-2, 2, size=d))
  X = X.dot(D.random_orthogonal(rng, d)) + rng.randn(d) * 3
  if mode == 'wide-scales':
    # features in very different units: the covariance is far from singular
    # in double precision (eigenvalue ratios down to 1e-11) and must be
    # inverted, not truncated
    X = rng.randn(n, d) * 10.0 ** rng.uniform(-2.75, 2.75, size=d)
    X[:, 0] *= 10.0 ** 2.75 / np.abs(X[:, 0]).std()
    X[:, 1] *= 10.0 ** -2.75 / np.abs(X[:, 1]).std()
    X = X + rng.randn(d) * X.std(0)
  if mode == 'dupcol':
    X[:, -1] = X[:, 0]
  elif mode == 'n<=d':
    X = X[:int(rng.randint(2, d + 1))]
  elif mode == 'd=1':
    X = X[:, :1]
  elif mode == 'zero-var':
    X[:, 0] = 2.5
  elif mode == 'd=1-zero-var':
    # a single feature that does not vary: the pseudo-inverse of [[0]] is 0
    X = np.full((len(X), 1), [2.5, 0.0, -1e3][spec['i'] % 3])
  det = {'mode': mode, 'shape': X.shape}
  with Quiet():
    try:
      est = Covariance().fit(X)
    except Exception as e:
      j.violated('C09.cov.penrose', dict(det, raised=repr(e)[:200]),
                 mechanism='cov-raised')
      return
  M = est.get_mahalanobis_matrix()
  C = np.atleast_2d(explicit_cov(X))
  w, V = np.linalg.eigh(C)
  # an eigenvalue within a few hundred ulps of the largest one is rounding
  # noise of the covariance itself (rank undecidable); anything above 1e-12
  # of the largest is resolved to better than 1e-3 and clearly non-zero
  if ambiguous_rank(w, lo=1e-14, hi=1e-12):
    j.skip('C09.cov', 'ambiguous-rank')
    return
  # spectrum of M is the reciprocal spectrum of C on C's range
  worst = 0.0
  for lam, v in zip(w, V.T):
    if lam > 1e-12 * w.max():
      tol_i = 1e-9 + 1e3 * EPS * w.max() / lam
      worst = max(worst, abs(float(v.dot(M).dot(v)) * lam - 1.0) / tol_i)
  j.close('C09.cov.reciprocal-spectrum', worst, 0.0, 1.0,
          dict(det, eigenvalues_of_cov=w))
  res = penrose_residuals(C, M)
  pos = w[w > w.max() * 1e-12] if w.max() > 0 else w
  cond = (pos.max() / pos.min()) if len(pos) else 1.0
  j.close('C09.cov.penrose', max(res.values()), 0.0, 1e-9 * max(cond, 1.0),
          dict(det, residuals=res, cond=cond))
  j.distinct('cov', mode, X.tobytes())
  if j.sample is None:
    j.sample = dict(det, penrose_residuals=res, eigenvalues_of_cov=w)


# ----------------------------------------------------------------------- RCA
def _rca(spec, j):
  from metric_learn import RCA, RCA_Supervised
  from metric_learn.constraints import Constraints
  rng = rng_for('c9rca', spec['seed'], spec['i'])
  ds = D.well_formed(rng, dmax=7, variant=['plain', 'unbalanced', 'offset',
                                           'int', 'illcond'][spec['i'] % 5],
                     labels=['range', 'sparse'][spec['i'] % 2])
  X, y, d = ds['X'], ds['y'], ds['d']
  k = [None, None, 1, max(1, d - 1), int(rng.randint(1, d + 1))][spec['i'] % 5]
  det = {'d': d, 'n': ds['n'], 'n_components': k,
         'supervised': spec['supervised']}
  degenerate = (spec['i'] % 6 == 5)
  if degenerate:
    # fewer chunks than features: inv(T) C has a repeated eigenvalue; the
    # retained set cuts through the repeated group (k = d - 1)
    k = max(1, d - 1)
    det['n_components'] = k
  if spec['supervised'] or degenerate:
    cs = 3 if degenerate else int(rng.choice([2, 3]))
    feas = sum(int((y == c).sum()) // cs for c in np.unique(y))
    need = int(np.ceil((d + 2) / (cs - 1)))
    if feas < need:
      j.skip('C09.rca', 'not-enough-chunks')
      return
    nch = int(min(feas, need + (0 if degenerate else rng.randint(0, 4))))
    seed = int(rng.randint(0, 10**6))
    est = RCA_Supervised(n_components=k, n_chunks=nch, chunk_size=cs,
                         random_state=seed)
    chunks = Constraints(y).chunks(n_chunks=nch, chunk_size=cs,
                                   random_state=seed)
    args = (X, y)
  else:
    chunks = D.chunk_labels(rng, y, d)
    if spec['i'] % 4 == 1:      # non-contiguous chunk ids
      chunks = np.where(chunks >= 0, chunks * 2 + 1, -1)
    est = RCA(n_components=k)
    args = (X, chunks)
  with Quiet():
    try:
      est.fit(*args)
    except Exception as e:
      j.violated('C09.rca.full', dict(det, raised=repr(e)[:200]),
                 mechanism='rca-raised')
      return
  L = est.components_
  if L.dtype.kind != 'f' or not np.all(np.isfinite(L)):
    j.violated('C09.rca.full', dict(det, why='components_ not real finite',
                                    dtype=str(L.dtype)), mechanism='rca-bad-L')
    return
  M = est.get_mahalanobis_matrix()
  Mref, C, gap = CF.rca_reference(X, chunks, k)
  condC = np.linalg.cond(C)
  if condC > 1e10:
    j.skip('C09.rca', 'ill-conditioned-within-chunk-covariance')
    return
  kk = L.shape[0]
  W = L.dot(C).dot(L.T)
  j.close('C09.rca.whitens', W, np.eye(kk), 1e-8 * max(condC, 1.0),
          dict(det, condC=condC))
  if k is None or k >= d:
    j.close('C09.rca.full', M.dot(C), np.eye(d), 1e-8 * max(condC, 1.0),
            dict(det, condC=condC))
  else:
    if gap < 1e-6:
      j.skip('C09.rca.reduced', 'eigen-gap')
      return
    sc = max(np.abs(Mref).max(), 1e-300)
    j.close('C09.rca.reduced', M, Mref, 1e-7 * sc * max(1.0, 1e-3 / gap),
            dict(det, gap=gap))
  j.distinct('rca', spec['supervised'], k, X.tobytes(), chunks.tobytes())
  if j.sample is None:
    j.sample = dict(det, chunks=chunks[:20], gap=gap,
                    max_abs_LCLt_minus_I=np.abs(W - np.eye(kk)).max())


def _rca_degenerate(spec, j):
  """Fewer chunks than features: inv(T) C has the eigenvalue (N-1)/N with
  multiplicity d - n_chunks + 1 and n_components cuts through that group.
  Which directions of the group are kept is arbitrary, but the result must
  be finite and must whiten the within-chunk covariance (D22)."""
  from metric_learn import RCA
  rng = rng_for('c9rcadeg', spec['seed'], spec['i'])
  for t in range(spec['n']):
    ds = D.well_formed(rng, d=int(rng.randint(4, 9)),
                       variant=['plain', 'offset', 'unbalanced'][t % 3])
    X, y, d = np.asarray(ds['X'], float), ds['y'], ds['d']
    cs = int(rng.choice([3, 4]))
    nch = int(np.ceil((d + 2) / (cs - 1)))
    chunks = -np.ones(len(y), dtype=int)
    cid = 0
    for c in rng.permutation(np.unique(y)):
      idx = rng.permutation(np.where(y == c)[0])
      for i in range(0, len(idx) - cs + 1, cs):
        if cid < nch:
          chunks[idx[i:i + cs]] = cid
          cid += 1
    if cid < nch or nch - 1 >= d - 1:
      j.count('rca-degenerate.not-constructible')
      continue
    k = int(rng.randint(max(1, nch), d))      # inside the repeated group
    det = {'d': d, 'n_chunks': nch, 'chunk_size': cs, 'n_components': k}
    with Quiet():
      try:
        est = RCA(n_components=k).fit(X, chunks)
      except Exception as e:
        j.violated('C09.rca.degenerate', dict(det, raised=repr(e)[:200]),
                   mechanism='rca-raised')
        continue
    L = est.components_
    if L.dtype.kind != 'f' or not np.all(np.isfinite(L)) or \
            L.shape != (k, d):
      j.violated('C09.rca.degenerate',
                 dict(det, why='components_ not a finite real (k, d) array',
                      shape=L.shape, dtype=str(L.dtype)),
                 mechanism='rca-bad-L')
      continue
    C, N = CF.rca_within_chunk_cov(X, chunks)
    condC = np.linalg.cond(C)
    if condC > 1e10:
      j.skip('C09.rca.degenerate', 'ill-conditioned')
      continue
    j.close('C09.rca.degenerate', L.dot(C).dot(L.T), np.eye(k),
            1e-8 * max(condC, 1.0), dict(det, condC=condC))
    j.distinct('rca-degenerate', X.tobytes(), k)
  if j.sample is None:
    j.sample = {'kind': 'rca-degenerate', 'last': det}


# ---------------------------------------------------------------------- LFDA
def _lfda_case(spec, j):
  from metric_learn import LFDA
  rng = rng_for('c9lfda', spec['seed'], spec['i'])
  i = spec['i']
  variant = ['plain', 'unbalanced', 'plain', 'offset', 'int', 'illcond',
             'small_scale'][i % 7]
  # the same exactly representable points moved far from the origin: the
  # documented formula is built from pairwise differences, so the reference
  # evaluated on the unmoved points is the reference for the moved ones
  shift = 1e8 if i % 8 == 7 else 0.0
  if shift:
    variant = 'dyadic'
  # (up to 8 features: the documented default k = min(7, d - 1) stops
  # growing at d = 8; classes then need more than 8 members to see it)
  ds = D.well_formed(rng, dmax=8, variant=variant,
                     nmax=60 if i % 4 else 110,
                     n_classes=[None, 2][i % 5 == 4],
                     labels=['range', 'sparse'][i % 2])
  ds['X'] = np.asarray(ds['X'], dtype=float) if i % 3 else ds['X']
  X, y, d, n = ds['X'], ds['y'], ds['d'], ds['n']
  emb = ['weighted', 'orthonormalized', 'plain'][i % 3]
  kopts = [None, 1, 2, max(1, d - 1), d, d + 2]
  kparam = kopts[(i // 3) % len(kopts)]
  ncomp = [None, 1, max(1, d - 1), int(rng.randint(1, d + 1))][(i // 2) % 4]
  det = {'d': d, 'n': n, 'embedding_type': emb, 'k': kparam,
         'n_components': ncomp, 'class_sizes': np.bincount(y),
         'shift': shift}
  del _lfda['caps'][:]
  est = LFDA(n_components=ncomp, k=kparam, embedding_type=emb)
  with Quiet():
    try:
      est.fit(X + shift if shift else X, y)
      if shift:
        j.count('lfda.far-from-origin')
    except Exception as e:
      j.violated('C09.lfda.metric-from-affinity',
                 dict(det, raised=repr(e)[:200]), mechanism='lfda-raised')
      return
  L = est.components_
  if L.dtype.kind != 'f' or not np.all(np.isfinite(L)):
    j.violated('C09.lfda.metric-from-affinity',
               dict(det, why='components_ not real finite'),
               mechanism='lfda-bad-L')
    return
  M = est.get_mahalanobis_matrix()
  kdim = L.shape[0]
  # documented local scale: k-th nearest same-class neighbour, k clamped to
  # d-1 (documented warning) and to n_c-1 for small classes
  if kparam is None:
    k_eff = min(7, d - 1)
  elif kparam >= d:
    k_eff = d - 1
  else:
    k_eff = kparam
  classes = np.unique(y)
  doc_sigma, doc_aff = {}, {}
  for c in classes:
    Xc = X[y == c]
    kc = max(1, min(k_eff, len(Xc) - 1))
    doc_sigma[c] = CF.knn_sigma(Xc, kc)
    doc_aff[c] = CF.affinity_from_sigma(Xc, doc_sigma[c])
  caps = list(_lfda['caps'])
  captured = (_lfda['code'] is not None and len(caps) == len(classes) and
              all(not miss or set(miss) <= {'c', 'nc'} for _, miss in caps))
  if not captured:
    # no view into the fit frame: judge the end-to-end result only
    j.count('lfda.frame-not-captured')
    Sw, Sb = CF.lfda_scatter(X, y, doc_aff)
    Mref, gap, lam = CF.lfda_reference(Sw, Sb, kdim, emb)
    if Mref is None or gap < 1e-6:
      j.skip('C09.lfda', 'eigen-gap-or-singular')
      return
    sc = max(np.abs(Mref).max(), 1e-300)
    j.close('C09.lfda.metric-from-affinity', M, Mref,
            1e-6 * sc * max(1.0, 1e-3 / gap), dict(det, gap=gap,
                                                   frame='not captured'),
            mechanism='lfda-end-to-end')
    return
  j.ok('C09.lfda.frame-captured')
  cap_aff, cap_sigma = {}, {}
  # signature of the known open finding D10, for the *documented* k: column k
  # of the column-wise partially sorted distance matrix, with the clamp of k
  # to n_c - 1 carried over from one class to the next
  from sklearn.metrics import pairwise_distances
  d10_sigma = {}
  k_run = k_eff
  for c in classes:
    Xc = np.asarray(X[y == c], dtype=float)
    k_run = min(k_run, len(Xc) - 1)
    # (squared distances from coordinate differences: accurate wherever the
    # data lies)
    dist_c = ((Xc[:, None, :] - Xc[None, :, :]) ** 2).sum(axis=-1)
    d10_sigma[c] = np.sqrt(np.partition(dist_c, k_run, axis=0)[:, k_run])
  d10_match = True
  sigma_ok = True
  worst_sigma = 0.0
  for c, (vals, _) in zip(classes, caps):
    cap_aff[c] = np.asarray(vals['A'], dtype=float)
    cap_sigma[c] = np.asarray(vals['sigma'], dtype=float)
    Xc = X[y == c]
    if cap_aff[c].shape != (len(Xc), len(Xc)) or \
            cap_sigma[c].shape != (len(Xc),):
      j.violated('C09.lfda.affinity-from-sigma',
                 dict(det, why='captured shapes', A=cap_aff[c].shape),
                 mechanism='lfda-capture-shape')
      return
    # link 2: affinity = exp(-dist^2 / (sigma_i sigma_j)) for the sigma used
    Aref = CF.affinity_from_sigma(Xc, cap_sigma[c])
    # (the repository evaluates squared distances as |x|^2+|y|^2-2xy, whose
    # cancellation error grows with the offset of the data: forward bound)
    sq = (Xc ** 2).sum(axis=1)
    ss = np.outer(cap_sigma[c], cap_sigma[c])
    with np.errstate(divide='ignore', invalid='ignore'):
      tolA = 1e-9 + np.where(ss > 0, 64 * np.finfo(float).eps *
                             (sq[:, None] + sq[None, :]) / ss, 0.0)
    j.close('C09.lfda.affinity-from-sigma', cap_aff[c], Aref, tolA,
            dict(det, cls=int(c)))
    # link 1: sigma is the documented k-th neighbour distance
    rel = np.abs(cap_sigma[c] - doc_sigma[c]) / \
        np.maximum(doc_sigma[c], 1e-300)
    worst_sigma = max(worst_sigma, float(rel.max()))
    if rel.max() > 1e-9:
      sigma_ok = False
    if np.abs(cap_sigma[c] - d10_sigma[c]).max() > 1e-9 * max(
            np.abs(d10_sigma[c]).max(), 1e-300):
      d10_match = False
  # link 3: metric from the affinities actually used
  Sw, Sb = CF.lfda_scatter(X, y, cap_aff)
  Mref, gap, lam = CF.lfda_reference(Sw, Sb, kdim, emb)
  if Mref is None or gap < 1e-6:
    j.skip('C09.lfda', 'eigen-gap-or-singular')
    return
  sc = max(np.abs(Mref).max(), 1e-300)
  link3 = j.close('C09.lfda.metric-from-affinity', M, Mref,
                  1e-6 * sc * max(1.0, 1e-3 / gap), dict(det, gap=gap))
  # link 4: rows ordered by decreasing eigenvalue (Rayleigh quotients of the
  # rows of components_ w.r.t. the scatter matrices built above)
  Sws, Sbs = (Sw + Sw.T) / 2, (Sb + Sb.T) / 2
  q = np.array([v.dot(Sbs).dot(v) / max(v.dot(Sws).dot(v), 1e-300)
                for v in L])
  l0 = max(abs(lam[0]), 1e-300)
  if emb in ('plain', 'weighted'):
    seps = np.diff(lam[:kdim + 1 if kdim < d else kdim])
    if kdim > 1 and np.all(-seps > 1e-4 * l0):
      j.close('C09.lfda.order', q, lam[:kdim], 1e-5 * l0,
              dict(det, rayleigh=q, eigenvalues=lam[:kdim]))
    elif kdim > 1:
      j.skip('C09.lfda.order', 'near-degenerate-eigenvalues')
  elif kdim > 1 and d > 1 and (lam[0] - lam[1]) > 1e-4 * l0:
    j.close('C09.lfda.order', q[0], lam[0], 1e-5 * l0,
            dict(det, rayleigh=q, eigenvalues=lam[:kdim]))
  if sigma_ok:
    j.ok('C09.lfda.sigma-documented')
  elif link3 and d10_match:
    # the known finding: only the first link deviates, and it deviates in
    # exactly the known way (anything else is reported as a new violation)
    j.violated('C09.lfda.sigma-documented',
               dict(det, worst_relative_sigma_error=worst_sigma,
                    k_eff=k_eff),
               mechanism='lfda-local-scale')
  else:
    j.violated('C09.lfda.sigma-documented',
               dict(det, worst_relative_sigma_error=worst_sigma),
               mechanism='lfda-sigma-and-metric')
  j.distinct('lfda', emb, kparam, ncomp, X.tobytes())
  if j.sample is None:
    j.sample = dict(det, gap=gap, generalized_eigenvalues=lam,
                    sigma_used=cap_sigma[classes[0]][:5],
                    sigma_documented=doc_sigma[classes[0]][:5])


LEVEL_TEXT = ('Exploration by runtime monitoring against independent '
              'reference models: the matrices learned by the real '
              'Covariance, RCA, RCA_Supervised and LFDA are compared with '
              'O(n^2) loop evaluations of the documented definitions on '
              'seeded hostile layouts; for LFDA the affinity matrix and local '
              'scale used inside fit are read from the live frame '
              '(sys.monitoring) so that each link of the documented chain is '
              'judged separately. Held on the executions in the evidence '
              'file, except for the one open known finding (LFDA local '
              'scale), which is reported as KNOWN-FINDING by mechanism.')
LEVEL_NOTE = ('Reference evaluations share no code with the repository; '
              'comparisons are on M (basis-free) with tolerances scaled by '
              'condition numbers and eigen-gaps; ambiguous-rank and '
              'small-gap cases are counted as inconclusive.')
TECHNIQUE = ('runtime monitoring: reference-model oracle on fitted state + '
             'solver-local state read from the fit frame via sys.monitoring')
