"""C20 -- PSD matrices are converted, validated and initialised as
documented."""
import numpy as np

from .. import common, estimators as E
from ..core import rng_for, Quiet
from ..instrument import api
from ..oracles import psd
from ..workloads import configs, data as D

ID = 'C20'
LEVEL = 'exploration'
RULE = ('cases = batches of direct calls to the real _util functions plus '
        'fits of all 17 estimators with the in-situ contracts on. '
        'components_from_metric: symmetric matrices of size 1..8 built from a '
        'random orthogonal basis and a prescribed spectrum (PSD of every '
        'rank, spectra over 16 orders of magnitude, diagonal, near-PSD with '
        'lambda_min in -tol*{0, 0.5, 2, 10}, indefinite, non-symmetric by '
        '1e-12 / 1e-3) x tol {None, 0, 1e-10, 1e-3}. Initialisers: every '
        'option value x datasets as points and as tuples (with duplicated '
        'points), integer seeds, arrays that are SPD / singular / indefinite '
        '/ asymmetric / of wrong shape, strict_pd and return_inverse both '
        'ways; transformation inits over n_components 1..d and the auto '
        'rule. Each call is judged by an independent postcondition oracle; '
        'the same oracles run as contracts on every call that the '
        'estimators make during fit. An evaluation is one postcondition '
        'clause. distinct_nontrivial counts distinct (function, option / '
        'matrix class, size, tol or seed).')
ASSUMPTIONS = ['skip bands: eigenvalues within 10% (+ rounding) of -tol, '
               'asymmetry between 1e-6 and 1e-3 relative (np.allclose '
               'boundary), spectra with an eigenvalue between 1e-13 and 1e-6 '
               'of the largest (ambiguous rank)',
               'at the single point n_components == n_classes the docstring '
               'of the auto rule and the implementable rule disagree; both '
               'outcomes are accepted there']
TIMEOUT = {'quick': 1200, 'thorough': 4 * 3600}
setup_worker = common.setup_worker


def cases(tier, seed):
  q = tier == 'quick'
  out = []
  for i in range(16 if q else 800):
    out.append({'kind': 'cfm', 'i': i, 'seed': seed, 'n': 40 if q else 120})
  for i in range(16 if q else 800):
    out.append({'kind': 'minit', 'i': i, 'seed': seed, 'n': 32})
  for i in range(16 if q else 800):
    out.append({'kind': 'cinit', 'i': i, 'seed': seed, 'n': 27})
  for ei, name in enumerate(E.ALL):
    for k in range(4 if q else 64):
      out.append({'kind': 'fit', 'est': name, 'i': k, 'seed': seed})
  return _with_repotests(out, tier)


def _with_repotests(out, tier):
  if tier != 'quick':
    from .. import repotests
    out.extend(repotests.specs())
  return out


def required(tier):
  q = tier == 'quick'
  n = 1 if q else 8
  return {'C20.cfm.reconstruct': 150 * n, 'C20.cfm.nonpsd-rejected': 60 * n,
          'C20.cfm.asym-rejected': 20 * n,
          'C20.sdp.rejects': 30 * n, 'C20.sdp.definite-flag': 100 * n,
          'C20.pinv': 100 * n,
          'C20.minit.identity': 10 * n, 'C20.minit.covariance': 20 * n,
          'C20.minit.random-reproducible': 10 * n,
          'C20.minit.array-as-given': 10 * n,
          'C20.minit.array-not-aliased': 10 * n,
          'C20.minit.strict-pd': 8 * n, 'C20.minit.array-indefinite': 4 * n,
          'C20.minit.array-asym': 4 * n, 'C20.minit.array-shape': 4 * n,
          'C20.minit.inverse': 20 * n,
          'C20.cinit.option-identity': 8 * n, 'C20.cinit.option-random': 8 * n,
          'C20.cinit.option-pca': 8 * n, 'C20.cinit.option-lda': 4 * n,
          'C20.cinit.option-auto': 8 * n, 'C20.cinit.array-as-given': 4 * n,
          'C20.cinit.array-shape': 8 * n,
          'G.C20.cfm.reconstruct': 5 * n, 'G.C20.minit.identity': 2 * n,
          'G.C20.cinit.option-auto': n}


def run_case(spec, j):
  if spec.get('kind') == 'repotests':
    from .. import repotests
    return repotests.run(spec, j)
  api.set_judge(j)
  {'cfm': _cfm, 'minit': _minit, 'cinit': _cinit, 'fit': _fit}[spec['kind']](
      spec, j)


def _call(fn, *a, **k):
  with api.paused(), Quiet():
    try:
      return fn(*a, **k), None
    except Exception as e:
      return None, e


def sym_matrix(rng, d, klass, tol):
  """Symmetric matrix of a prescribed spectrum class."""
  Q = D.random_orthogonal(rng, d)
  big = 10.0 ** rng.uniform(-3, 3)
  if klass == 'pd':
    w = big * 10.0 ** rng.uniform(-3, 0, size=d)
  elif klass == 'wide':
    w = big * 10.0 ** np.linspace(0, -rng.uniform(4, 16), d)
  elif klass == 'lowrank':
    w = big * 10.0 ** rng.uniform(-2, 0, size=d)
    w[:int(rng.randint(1, d + 1))] = 0.0
  elif klass == 'zero':
    w = np.zeros(d)
  elif klass == 'near':
    w = big * 10.0 ** rng.uniform(-2, 0, size=d)
    t_eff = tol if tol is not None else w.max() * d * np.finfo(float).eps
    w[0] = -t_eff * float(rng.choice([0.0, 0.5, 2.0, 10.0]))
  elif klass == 'indefinite':
    w = big * 10.0 ** rng.uniform(-2, 0, size=d)
    w[0] = -w.max() * 10.0 ** rng.uniform(-6, 0)
  else:
    raise ValueError(klass)
  M = (Q * w).dot(Q.T)
  return (M + M.T) / 2


def _cfm(spec, j):
  from metric_learn import _util
  from metric_learn.exceptions import NonPSDError  # noqa
  rng = rng_for('c20cfm', spec['seed'], spec['i'])
  classes = ['pd', 'wide', 'lowrank', 'zero', 'near', 'near', 'indefinite',
             'diag', 'diag-neg', 'diag-tiny', 'asym-small', 'asym-large',
             'block-tiny', 'sym-to-rounding']
  for t in range(spec['n']):
    d = int(rng.randint(1, 9))
    tol = [None, 0.0, 1e-10, 1e-3][int(rng.randint(4))]
    klass = classes[(t + spec['i']) % len(classes)]
    if klass == 'diag':
      M = np.diag(10.0 ** rng.uniform(-8, 8, size=d) *
                  (rng.rand(d) > 0.3))
    elif klass == 'diag-neg':
      M = np.diag(10.0 ** rng.uniform(-2, 2, size=d))
      M[0, 0] = -M.max() * 10.0 ** rng.uniform(-8, 0)
    elif klass == 'diag-tiny':
      # exact spectrum with one entry far below / around the default
      # tolerance, of either sign: decides tol = 0 vs tol = None exactly
      M = np.diag(10.0 ** rng.uniform(-2, 2, size=d))
      M[0, 0] = rng.choice([-1.0, 1.0]) * M.max() * \
          10.0 ** rng.uniform(-30, -13)
    elif klass == 'block-tiny':
      # structured, not diagonal: a positive definite block plus a decoupled
      # (or only partly coupled) coordinate whose eigenvalue is a tiny number
      # of either sign, far inside every tolerance: PSD up to rounding, with
      # a negative *diagonal entry*
      d = max(d, 3)
      M = np.zeros((d, d))
      M[:d - 1, :d - 1] = sym_matrix(rng, d - 1, 'pd', tol)
      M[d - 1, d - 1] = rng.choice([-1.0, 1.0]) * np.abs(M).max() * \
          10.0 ** rng.uniform(-30, -20)
      if rng.randint(2):
        # Givens rotation in the plane of two *small* coordinates only
        M[d - 2, d - 2] = np.abs(M).max() * 10.0 ** rng.uniform(-30, -20)
        M[d - 2, :d - 2] = M[:d - 2, d - 2] = 0.0
        c_, s_ = np.cos(0.3), np.sin(0.3)
        G = np.eye(d)
        G[d - 2:, d - 2:] = [[c_, -s_], [s_, c_]]
        M = G.dot(M).dot(G.T)
        M = (M + M.T) / 2
    elif klass == 'sym-to-rounding':
      # symmetric only up to rounding, with entries whose exact value is 0
      # (a numerically inverted Markov covariance; a diagonal matrix with a
      # one-sided residue): M[i, j] and M[j, i] are then unrelated residues
      d = max(d, 3)
      if rng.randint(2):
        rho = float(rng.uniform(0.2, 0.8))
        Cm = rho ** np.abs(np.subtract.outer(np.arange(d), np.arange(d)))
        M = [np.linalg.inv, np.linalg.pinv][int(rng.randint(2))](Cm) * \
            10.0 ** rng.uniform(-3, 3)
      else:
        M = np.diag(10.0 ** rng.uniform(-2, 2, size=d))
        M[0, d - 1] = M.max() * 1e-18
        M[1, 0] = -M.max() * 3e-19
    elif klass.startswith('asym'):
      M = sym_matrix(rng, max(d, 2), 'pd', tol)
      delta = 1e-12 if klass == 'asym-small' else 1e-3
      M[0, -1] += delta * 5 * np.abs(M).max()
    else:
      M = sym_matrix(rng, d, klass, tol)
    M0 = M.copy()
    r, e = _call(_util.components_from_metric, M, tol)
    psd.judge_components_from_metric(j, M0, tol, r, e, mon='C20.cfm')
    j.check('C20.cfm.input-unmodified', np.array_equal(M, M0), {})
    # the two documented eigen-helpers on an exact spectrum
    n_ = int(rng.randint(1, 9))
    wv = 10.0 ** rng.uniform(-3, 3, size=n_)
    kind_ = t % 4
    if kind_ == 1:
      wv[0] = rng.choice([-1.0, 1.0]) * wv.max() * 10.0 ** rng.uniform(-30, -13)
    elif kind_ == 2:
      wv[0] = -wv.max() * 10.0 ** rng.uniform(-12, 0)
    elif kind_ == 3:
      wv[:int(rng.randint(1, n_ + 1))] = 0.0
    wv = np.sort(wv)
    r2, e2 = _call(_util._check_sdp_from_eigen, wv.copy(), tol)
    psd.judge_check_sdp(j, wv, tol, r2, e2)
    if wv.max() > 0:
      Vq = D.random_orthogonal(rng, n_)
      r3, e3 = _call(_util._pseudo_inverse_from_eig, wv.copy(), Vq, tol)
      psd.judge_pinv_from_eig(j, wv, Vq, tol, r3, e3)
    j.distinct('cfm', klass, M.shape[0], tol)
    if j.sample is None and klass == 'near':
      j.sample = {'function': 'components_from_metric', 'class': klass,
                  'tol': tol, 'eigenvalues': np.linalg.eigvalsh(M0),
                  'outcome': type(e).__name__ if e else 'returned L'}


def _minit(spec, j):
  from metric_learn import _util
  rng = rng_for('c20minit', spec['seed'], spec['i'])
  f = _util._initialize_metric_mahalanobis
  for t in range(spec['n']):
    ds = D.well_formed(rng, dmax=6, variant=['plain', 'offset', 'illcond',
                                             'small_scale', 'factorial',
                                             'coarse'][t % 6], nmax=40,
                       d=[None, int(rng.randint(3, 6))][t % 6 >= 4])
    X, d = np.asarray(ds['X'], float), ds['d']
    as_tuples = bool(t % 2)
    if as_tuples:
      idx = rng.randint(0, len(X), size=(int(rng.randint(d + 3, 30)),
                                         int(rng.choice([2, 3, 4]))))
      inp = X[idx]                      # duplicated points by construction
      if t % 4 == 1:
        # the same point written with 0.0 and with -0.0: one point, two byte
        # patterns
        k0 = int(rng.randint(d))
        inp = np.array(inp, copy=True)
        same = np.all(inp == inp[0, 0], axis=-1)
        inp[same, k0] = 0.0
        inp[-1, -1] = inp[0, 0]
        inp[-1, -1, k0] = -0.0
    else:
      inp = X
    mode = t % 8
    seed = int(rng.randint(0, 10**6))
    if seed % 6 == 0:
      seed = 0      # the falsy integer seed must seed like any other
    rng.rand(2)
    ret_inv = bool((t // 8 + spec['i']) % 2)
    strict = bool((t // 16 + spec['i'] // 2) % 2) if mode not in (4, 6) \
        else bool((t // 8 + spec['i'] // 2) % 2)
    if mode == 0:
      init = 'identity'
    elif mode == 1:
      init = 'covariance'
    elif mode == 2:
      init = 'random'
    elif mode == 3:
      init = D.spd_matrix(rng, d, cond=10.0 ** rng.uniform(0, 5))
    elif mode == 4:       # singular PSD array
      init = sym_matrix(rng, d, 'lowrank', None)
    elif mode == 5:       # indefinite / asymmetric / wrong shape
      sub = (t // 8 + spec['i']) % 3
      if sub == 0:
        init = sym_matrix(rng, max(d, 2), 'indefinite', None)[:d, :d]
        if np.linalg.eigvalsh(init).min() > -1e-6 * np.abs(init).max():
          init = init - np.eye(d) * np.abs(init).max()
      elif sub == 1:
        init = D.spd_matrix(rng, d)
        init[0, -1] += 0.1 * np.abs(init).max()
      else:
        init = D.spd_matrix(rng, d + 1)
    elif mode == 6:       # singular covariance: duplicated column / n <= d
      init = 'covariance'
      inp = np.array(inp, copy=True)
      inp[..., -1] = inp[..., 0]
    else:
      init = ['bogus', 'pca', None][int(rng.randint(3))]
    if isinstance(init, np.ndarray) and t % 3 == 1:
      init = np.asfortranarray(init)      # memory order must not matter
    if isinstance(init, np.ndarray) and (t // 8) % 3 == 1:
      # ... nor the precision the array is stored in: the numbers it holds
      # are the matrix (checks and inverse are still double precision work)
      init = init.astype(np.float32)
    init0 = init.copy() if isinstance(init, np.ndarray) else init
    inp0 = inp.copy()
    r, e = _call(f, inp, init, seed, ret_inv, strict, 'prior')
    psd.judge_metric_init(j, inp0, init0, seed, ret_inv, strict, r, e,
                          mon='C20.minit')
    if isinstance(init, np.ndarray):
      j.check('C20.minit.argument-unmodified', np.array_equal(init, init0),
              {})
    j.check('C20.minit.input-unmodified', np.array_equal(inp, inp0), {})
    if mode == 2 and e is None:
      r2, e2 = _call(f, inp, 'random', seed, ret_inv, strict, 'prior')
      a = r[0] if ret_inv else r
      b = r2[0] if ret_inv else r2
      j.check('C20.minit.random-reproducible', np.array_equal(a, b), {})
    j.distinct('minit', mode, as_tuples, d, ret_inv, strict)
    if j.sample is None and mode == 1:
      j.sample = {'function': '_initialize_metric_mahalanobis',
                  'init': 'covariance', 'input_shape': inp.shape,
                  'strict_pd': strict, 'return_inverse': ret_inv,
                  'outcome': type(e).__name__ if e else 'returned'}


def _cinit(spec, j):
  from metric_learn import _util
  rng = rng_for('c20cinit', spec['seed'], spec['i'])
  f = _util._initialize_components
  for t in range(spec['n']):
    ds = D.well_formed(rng, dmax=6, nmax=40,
                       variant=['plain', 'unbalanced', 'offset'][t % 3])
    X, y, d = np.asarray(ds['X'], float), ds['y'], ds['d']
    nclass = ds['classes']
    if t % 6 == 5:
      # tiny / degenerate: many classes, few samples (LDA resolves fewer
      # directions than n_classes - 1)
      nclass = int(rng.randint(3, 8))
      n_t = int(rng.randint(nclass + 2, 3 * nclass))
      y = np.arange(n_t) % nclass
      X = rng.randn(n_t, d)
      ds = dict(ds, t=rng.randn(n_t))
    has_classes = bool(t % 5 != 4)
    yy = y if has_classes else ds['t']
    k = int(rng.randint(1, d + 1))
    mode = t % 9
    seed = int(rng.randint(0, 10**6))
    if seed % 6 == 0:
      seed = 0      # the falsy integer seed must seed like any other
    if mode in (0, 1):
      init = 'auto'
      if mode == 1:       # probe the rule's boundaries
        k = int(np.clip(rng.choice([nclass - 1, nclass, d - 1, d]), 1, d))
    elif mode == 2:
      init = 'identity'
    elif mode == 3:
      init = 'random'
    elif mode == 4:
      init = 'pca'
    elif mode == 5:
      init = 'lda'
      if has_classes:
        k = int(min(k, nclass - 1))
    elif mode == 6:
      init = rng.randn(k, d)
    elif mode == 7:       # arrays of wrong shape
      sub = int(rng.randint(3))
      init = [rng.randn(k, d + 1), rng.randn(d + 1, d),
              rng.randn(k + 1 if k < d else max(1, k - 1), d)][sub]
    else:
      init = ['bogus', 'covariance', 5][int(rng.randint(3))]
    init0 = init.copy() if isinstance(init, np.ndarray) else init
    r, e = _call(f, k, X, yy, init, False, seed, has_classes)
    psd.judge_components_init(j, k, X, yy, init0, seed, has_classes, r, e,
                              mon='C20.cinit')
    if isinstance(init, np.ndarray):
      j.check('C20.cinit.argument-unmodified', np.array_equal(init, init0),
              {})
    j.distinct('cinit', mode, has_classes, d, k)
    if j.sample is None and mode == 1:
      j.sample = {'function': '_initialize_components', 'init': 'auto',
                  'n_components': k, 'n_features': d, 'n_classes': nclass,
                  'has_classes': has_classes,
                  'outcome': type(e).__name__ if e else
                  'shape %s' % (np.asarray(r).shape,)}


def _fit(spec, j):
  """Fits with the in-situ contracts on (G.C20.* are this check's own)."""
  name = spec['est']
  r = rng_for('c20fit', spec['seed'], name, spec['i'])
  dss = {'seed': int(r.randint(2**31 - 1)), 'd': int(r.randint(2, 6)),
         'classes': int(r.randint(2, 4)),
         'variant': ['plain', 'offset', 'illcond', 'int'][spec['i'] % 4],
         'nmax': 40}
  full = configs.product(name, dss['d'], dss['classes'])
  cfg = full[int(r.randint(len(full)))]
  if spec['i'] % 2 == 0:      # defaults: identity priors, init='auto', ...
    cfg = {}
  if cfg.get('n_basis', 1) is None:
    cfg = dict(cfg, n_basis=3 * dss['d'])
  s = {'est': name, 'params': cfg, 'ds': dss, 'seed': int(r.randint(1000))}
  f, _ = common.fit(s, j)
  if f is not None:
    j.distinct('fit', name, repr(sorted(cfg.items(), key=repr)), dss['seed'])


LEVEL_TEXT = ('Exploration by runtime monitoring with postcondition '
              'contracts: the real components_from_metric, '
              '_initialize_metric_mahalanobis and _initialize_components are '
              'called on matrices of prescribed spectra and on every option '
              'value, and judged by independent oracles (reconstruction L^T '
              'L = M, NonPSDError iff an eigenvalue is below -tol, Penrose '
              'conditions of the covariance prior w.r.t. an explicit-loop '
              'covariance of the distinct points, seed-reproducible random '
              'SPD prior, arrays returned equal and unaliased, strict_pd, the '
              'documented auto rule); the same oracles run as in-situ '
              'contracts on every call the estimators make while fitting. '
              'Held on the executions in the evidence file.')
LEVEL_NOTE = ('Comparisons near discontinuities (eigenvalue at -tol, '
              'np.allclose boundary, ambiguous rank) fall into declared skip '
              'bands and are counted as inconclusive.')
TECHNIQUE = ('runtime monitoring: postcondition contracts on the real _util '
             'functions (direct calls with prescribed spectra + in-situ '
             'during every fit)')
