"""C06 -- malformed input is always rejected with ValueError; equivalent
array-likes are equivalent."""
import numpy as np
from sklearn.base import clone

from .. import common, estimators as E
from ..core import rng_for, Quiet
from ..instrument import api

ID = 'C06'
LEVEL = 'exploration'
RULE = ('cases = estimator (all 17) x {no preprocessor, array preprocessor} x '
        'seeded dataset; per case the complete malformation grammar is '
        'enumerated for every data-taking method the estimator has: points '
        '(ndim 0 as numpy scalar / 0-d ndarray / Python float, ndim 1/3/4, zero rows, zero columns, NaN/+inf/-inf at '
        'first/middle/last position, str dtype, object dtype with a string '
        'or None, complex, feature count d+-1 at query time, ragged list, '
        'None), tuples (ndim 0/1/2/4, tuple sizes 1..5 != expected, empty on '
        'each axis, NaN/inf, str/object/complex, feature mismatch, ragged, '
        'None), labels (length +-1, 2-D, NaN; pair label alphabets {0,1}, '
        '{-1,0,1}, {-2,2}, {0.5}, strings), n_components in {0,-1,d+1}, '
        'indicator arrays of wrong ndim / tuple size / empty with a '
        'preprocessor, and the dimensionality checks of the get_metric '
        'closure. An evaluation is one malformed call whose outcome '
        '(returned / exception class) was observed. The positive half refits '
        'and re-queries with list / int / Fortran / non-contiguous inputs. '
        'distinct_nontrivial counts distinct (estimator, method, '
        'malformation, preprocessor mode).')
ASSUMPTIONS = ['"non-numeric entries" is read as strings / None (opaque '
               'Python objects are not in the grammar); float-valued '
               'indicator arrays are routed to the preprocessor and surface '
               'as PreprocessorError (C05), so they are not in this grammar; '
               'labels of shape (n,1) are accepted by scikit-learn with a '
               'DataConversionWarning and are not counted as malformed']
TIMEOUT = {'quick': 900, 'thorough': 3 * 3600}
EXHAUSTIVE = {'quick': 'malformation grammar x method, per estimator and '
              'preprocessor mode', 'thorough': 'malformation grammar x '
              'method, per estimator and preprocessor mode'}
setup_worker = common.setup_worker


def cases(tier, seed):
  out = []
  nds = 1 if tier == 'quick' else 25
  for name in E.ALL:
    dss = common.ds_specs(seed, 'C06' + name, nds, dmax=4, dmin=2)
    for ds in dss:
      for prep in (None, 'array'):
        out.append({'est': name, 'params': {}, 'ds': dict(ds, nmax=60),
                    'seed': seed % 1000, 'prep': prep})
  return out


def required(tier):
  n = 1500 if tier == 'quick' else 7000
  return {'C06.rejected': n, 'C06.closure-rejected': 30,
          'C06.equivalent-forms.fit': 15, 'C06.equivalent-forms.query': 30}


# ------------------------------------------------------------------ grammar
def _poison(A, where, val):
  # (C order: reshape(-1) of a Fortran-ordered copy would be another copy
  # and the poison would never reach B)
  B = np.array(A, dtype=float, copy=True, order='C')
  flat = B.reshape(-1)
  assert np.shares_memory(flat, B)
  pos = {'first': 0, 'middle': flat.size // 2, 'last': flat.size - 1}[where]
  flat[pos] = val
  return B


def points_grammar(P, at_query, with_prep):
  """(label, value) malformed *points* inputs built from valid P (n,d)."""
  n, d = P.shape
  g = [('ndim0', np.float64(3.0)), ('ndim0-ndarray', np.array(3.0)),
       ('ndim0-python-float', 3.0), ('ndim0-int-ndarray', np.array(7)),
       ('ndim3', P[None]), ('ndim4', P[None, None]),
       ('zero-rows', P[:0]), ('zero-cols', P[:, :0])]
  if not with_prep:
    g.append(('ndim1', P[0].copy()))
  else:
    g.append(('indicators-empty', np.array([], dtype=int)))
    g.append(('indicators-2d-of-wrong-width',
              np.zeros((3, d + 2), dtype=int)) if False else
             ('indicators-3d', np.zeros((2, 2, 2), dtype=int)))
  for val, vn in ((np.nan, 'nan'), (np.inf, '+inf'), (-np.inf, '-inf')):
    for where in ('first', 'middle', 'last'):
      g.append(('%s-%s' % (vn, where), _poison(P, where, val)))
  g.append(('str-dtype', np.full(P.shape, 'a')))
  o = P.astype(object)
  o[0, 0] = 'abc'
  g.append(('object-with-string', o))
  o = P.astype(object)
  o[-1, -1] = None
  g.append(('object-with-None', o))
  g.append(('complex', P.astype(complex) + 1j))
  # text that reads like numbers is still text
  g.append(('numeric-text', np.round(P, 3).astype(str)))
  g.append(('numeric-bytes', np.round(P, 3).astype('S')))
  g.append(('ragged', [[1.0] * d, [1.0] * (d + 1)]))
  g.append(('None', None))
  if at_query:
    g.append(('features+1', np.hstack([P, P[:, :1]])))
    if d > 1:
      g.append(('features-1', P[:, :-1].copy()))
  return g


def tuples_grammar(T, at_query, with_prep, t):
  """malformed *tuples* inputs from valid T (n,t,d)."""
  n, _, d = T.shape
  g = [('ndim0', np.float64(3.0)), ('ndim0-ndarray', np.array(3.0)),
       ('ndim0-python-float', 3.0), ('ndim4', T[None]),
       ('empty-axis0', T[:0]), ('empty-axis1', T[:, :0]),
       ('empty-axis2', T[:, :, :0])]
  if not with_prep:
    g.append(('ndim1', T.reshape(-1)[:d].copy()))
    g.append(('ndim2', T[:, 0].copy()))
  else:
    g.append(('indicators-1d', np.arange(4)))
    g.append(('indicators-empty', np.zeros((0, t), dtype=int)))
    g.append(('indicators-4d', np.zeros((2, t, 2, 2), dtype=int)))
  for s in range(1, 6):
    if s == t:
      continue
    Ts = np.concatenate([T] * 5, axis=1)[:, :s]
    g.append(('tuple-size-%d' % s, Ts))
    if with_prep:
      g.append(('indicator-tuple-size-%d' % s, np.zeros((3, s), dtype=int)))
  for val, vn in ((np.nan, 'nan'), (np.inf, '+inf'), (-np.inf, '-inf')):
    for where in ('first', 'middle', 'last'):
      g.append(('%s-%s' % (vn, where), _poison(T, where, val)))
  g.append(('str-dtype', np.full(T.shape, 'a')))
  o = T.astype(object)
  o[0, 0, 0] = 'abc'
  g.append(('object-with-string', o))
  o = T.astype(object)
  o[-1, -1, -1] = None
  g.append(('object-with-None', o))
  g.append(('complex', T.astype(complex) + 1j))
  g.append(('numeric-text', np.round(T, 3).astype(str)))
  g.append(('numeric-bytes', np.round(T, 3).astype('S')))
  g.append(('ragged', [[[1.0] * d] * t, [[1.0] * d] * (t + 1)]))
  g.append(('None', None))
  if at_query:
    g.append(('features+1', np.concatenate([T, T[:, :, :1]], axis=2)))
    if d > 1:
      g.append(('features-1', T[:, :, :-1].copy()))
  return g


def label_grammar(y, pair_labels):
  n = len(y)
  g = [('len+1', np.concatenate([y, y[:1]])), ('len-1', y[:-1].copy()),
       ('2d', np.column_stack([y, y])),
       ('nan', _poison(np.asarray(y, dtype=float), 'middle', np.nan))]
  if pair_labels:
    base = np.resize
    g += [('alphabet{0,1}', base(np.array([0, 1]), n)),
          ('alphabet{-1,0,1}', base(np.array([-1, 0, 1]), n)),
          ('alphabet{-2,2}', base(np.array([-2, 2]), n)),
          ('alphabet{0.5}', np.full(n, 0.5)),
          ('alphabet{strings}', base(np.array(['a', 'b']), n)),
          # non-numeric entries that *read* like the legal labels
          ("alphabet{'1'|'-1'}", base(np.array(['1', '-1']), n)),
          ("alphabet{'1.0'|'-1.0'} list", base(np.array(['1.0', '-1.0']),
                                               n).tolist()),
          ("alphabet{b'1'|b'-1'}", base(np.array([b'1', b'-1']), n)),
          ("alphabet{'+1'|'-1'} object", base(np.array(['+1', '-1'],
                                                       dtype=object), n)),
          ('alphabet{inf}', base(np.array([1.0, -1.0, np.inf]), n)),
          ('alphabet{1+0j}', base(np.array([1 + 0j, -1 + 1j]), n))]
  return g


# ------------------------------------------------------------------- runner
def run_case(spec, j):
  name = spec['est']
  ds = common.dataset(spec['ds'])
  prep = spec.get('prep')
  with_prep = prep is not None
  f, _ = common.fit(spec, j, ds=ds, preprocessor=prep)
  if f is None:
    return
  est = f.est
  api.set_judge(j)
  X = np.asarray(ds['X'], dtype=float)
  n, d = X.shape
  kind = E.KIND[name]
  rng = rng_for('c6', spec['ds']['seed'], name)
  det = {'est': name, 'prep': prep}

  def expect_value_error(method, label, fn):
    try:
      with Quiet():
        r = fn()
    except ValueError:
      j.ok('C06.rejected')
      j.ok('C06.rejected.' + method)
      j.distinct(name, method, label, prep)
      return
    except Exception as e:
      j.violated('C06.rejected',
                 dict(det, method=method, malformation=label,
                      raised=type(e).__name__, msg=str(e)[:200]),
                 mechanism='wrong-exception:%s:%s' % (method, label))
      return
    j.violated('C06.rejected',
               dict(det, method=method, malformation=label,
                    returned=repr(r)[:80]),
               mechanism='accepted:%s:%s' % (method, label))

  P = X[rng.randint(0, n, size=6)]
  pairs = X[rng.randint(0, n, size=(6, 2))]
  # ---- query methods on points / pairs (every estimator)
  for label, val in points_grammar(P, True, with_prep):
    expect_value_error('transform', label, lambda: est.transform(val))
  for m in ('pair_distance', 'pair_score', 'score_pairs'):
    for label, val in tuples_grammar(pairs, True, with_prep, 2):
      expect_value_error(m, label, lambda: getattr(est, m)(val))
  # ---- classifier methods
  tsize = E.TUPLE_SIZE.get(kind)
  if tsize is not None:
    T = X[rng.randint(0, n, size=(8, tsize))]
    for m in ('predict', 'decision_function'):
      for label, val in tuples_grammar(T, True, with_prep, tsize):
        expect_value_error(m, label, lambda: getattr(est, m)(val))
    if tsize == 2:
      ylab = np.resize(np.array([1, -1]), len(T))
      for label, val in tuples_grammar(T, True, with_prep, 2):
        expect_value_error('score', label, lambda: est.score(val, ylab))
        expect_value_error('calibrate_threshold', label,
                           lambda: est.calibrate_threshold(val, ylab))
      for label, yv in label_grammar(ylab, True):
        expect_value_error('score', 'labels:' + label,
                           lambda: est.score(T, yv))
        expect_value_error('calibrate_threshold', 'labels:' + label,
                           lambda: est.calibrate_threshold(T, yv))
        # ... whatever the strategy
        for strat, kw in (('f_beta', {'beta': 1.0}),
                          ('max_tpr', {'min_rate': 0.5}),
                          ('max_tnr', {'min_rate': 0.5})):
          expect_value_error(
              'calibrate_threshold', 'labels:%s/%s' % (label, strat),
              lambda: est.calibrate_threshold(T, yv, strategy=strat, **kw))
    else:
      for label, val in tuples_grammar(T, True, with_prep, tsize):
        expect_value_error('score', label, lambda: est.score(val))
  # ---- fit
  fresh = lambda **kw: clone(est).set_params(**kw)  # noqa
  args = f.args
  if kind in ('unsup', 'points', 'regress', 'chunks'):
    base_pts = X
    second = args[1] if len(args) > 1 else None
    for label, val in points_grammar(base_pts, False, with_prep):
      a = (val,) if second is None else (val, second[:len(val)]
                                         if hasattr(val, '__len__') and
                                         getattr(val, 'ndim', 2) == 2 and
                                         len(val) == len(second) else second)
      expect_value_error('fit', label, lambda: fresh().fit(*a))
    if second is not None:
      first = args[0]
      for label, yv in label_grammar(np.asarray(second), False):
        expect_value_error('fit', 'labels:' + label,
                           lambda: fresh().fit(first, yv))
    if 'n_components' in est.get_params():
      for nc in (0, -1, d + 1):
        expect_value_error('fit', 'n_components=%d' % nc,
                           lambda: fresh(n_components=nc).fit(*args))
  else:
    Tfit = X[f.meta['tuple_idx']]
    lab = f.meta['tuple_labels']
    for label, val in tuples_grammar(Tfit, False, with_prep, tsize):
      a = (val,) if lab is None else (val, lab)
      expect_value_error('fit', label, lambda: fresh().fit(*a))
    if lab is not None:
      for label, yv in label_grammar(np.asarray(lab), True):
        expect_value_error('fit', 'labels:' + label,
                           lambda: fresh().fit(args[0], yv))
  # ---- the closure: dimensionality and length only
  metric = est.get_metric()
  u = X[0]
  for label, (a, b) in (('2d-u', (X[:2], u)), ('2d-v', (u, X[:2])),
                        ('length+1', (np.append(u, 1.0), u)),
                        # (a length-1 vector broadcasts: not judged)
                        ('length-1', (u[:-1], u) if d > 2 else (X[:2], u)),
                        ('3d', (X[:2][None], u))):
    try:
      with Quiet():
        r = metric(a, b)
      j.violated('C06.closure-rejected', dict(det, malformation=label,
                                              returned=repr(r)[:60]))
    except ValueError:
      j.ok('C06.closure-rejected')
    except Exception as e:
      j.violated('C06.closure-rejected', dict(det, malformation=label,
                                              raised=type(e).__name__))
  # ---- positive half: equivalent array-likes are equivalent
  if not with_prep:
    _positive(j, name, f, est, ds, X, rng, det)
  if j.sample is None:
    j.sample = dict(det, example_malformation='nan-middle in transform',
                    grammar_sizes={'points': len(points_grammar(P, True,
                                                                with_prep)),
                                   'tuples(pairs)': len(tuples_grammar(
                                       pairs, True, with_prep, 2))})


INT_DTYPES = ['uint8', 'int8', 'uint16', 'int16', 'uint32', 'int32', 'uint64',
              'int64']


def _forms(A):
  A = np.asarray(A)
  out = [('list', A.tolist()), ('fortran', np.asfortranarray(A))]
  big = np.zeros((2 * A.shape[0],) + A.shape[1:], dtype=A.dtype)
  big[::2] = A
  out.append(('strided', big[::2]))
  return out


def _positive(j, name, f, est, ds, X, rng, det):
  L0 = est.components_
  scale = max(np.abs(L0).max(initial=0.0), 1e-300)
  for label, alt in _forms(f.args[0]):
    e2 = clone(est)
    with Quiet():
      try:
        e2.fit(*((alt,) + tuple(f.args[1:])), **f.kwargs)
      except Exception as e:
        j.violated('C06.equivalent-forms.fit',
                   dict(det, form=label, raised=repr(e)[:200]))
        continue
    L2 = e2.components_
    if L2.shape != L0.shape:
      j.violated('C06.equivalent-forms.fit', dict(det, form=label,
                                                  shape=L2.shape))
      continue
    M0, M2 = L0.T.dot(L0), L2.T.dot(L2)
    j.close('C06.equivalent-forms.fit', M2, M0,
            1e-7 * max(np.abs(M0).max(), 1e-300), dict(det, form=label))
  Q = X[rng.randint(0, len(X), size=(10, 2))]
  with Quiet():
    ref = est.pair_distance(Q)
    for label, alt in _forms(Q):
      j.close('C06.equivalent-forms.query', est.pair_distance(alt), ref,
              1e-12 * np.abs(ref) + 1e-12 * scale, dict(det, form=label))
    Qi = np.round(Q)
    refi = est.pair_distance(Qi)
    j.close('C06.equivalent-forms.query',
            est.pair_distance(Qi.astype(np.int64)), refi,
            1e-12 * np.abs(refi) + 1e-12 * scale, dict(det, form='int64'))
    tr = est.transform(Qi[:, 0])
    j.close('C06.equivalent-forms.query',
            est.transform(Qi[:, 0].astype(np.int32)), tr,
            1e-12 * np.abs(tr) + 1e-12 * scale, dict(det, form='int32'))
    # every integer dtype that can hold the numbers, narrow and unsigned ones
    # included: the numbers 0..120 fit all of them, their differences do not
    # fit int8 and are negative half of the time
    d = X.shape[1]
    Qn = rng.randint(0, 121, size=(10, 2, d))
    refn = est.pair_distance(Qn.astype(float))
    trn = est.transform(Qn[:, 0].astype(float))
    fun = est.get_metric()
    for dt in INT_DTYPES:
      alt = Qn.astype(dt)
      j.close('C06.equivalent-forms.query', est.pair_distance(alt), refn,
              1e-12 * np.abs(refn) + 1e-12 * scale,
              dict(det, form=dt, method='pair_distance'))
      j.close('C06.equivalent-forms.query', est.transform(alt[:, 0]), trn,
              1e-12 * np.abs(trn) + 1e-12 * scale,
              dict(det, form=dt, method='transform'))
      j.close('C06.equivalent-forms.query', fun(alt[0, 0], alt[0, 1]),
              refn[0], 1e-12 * np.abs(refn[0]) + 1e-12 * scale,
              dict(det, form=dt, method='get_metric()'))
  # the same integer-valued training data as float64 and as integer arrays
  A0 = np.asarray(f.args[0])
  Xs = np.round(A0 * (8.0 if A0.dtype.kind == 'f' else 1.0))
  Xs = Xs - Xs.min()
  hi = Xs.max()
  e0 = clone(est)
  with Quiet():
    try:
      e0.fit(*((Xs.astype(float),) + tuple(f.args[1:])), **f.kwargs)
    except Exception:
      j.skip('C06.equivalent-forms.fit', 'integer-valued-reference-fit-raised')
      return
  Mr = e0.get_mahalanobis_matrix()
  for dt in [t for t in INT_DTYPES if hi <= np.iinfo(t).max][:4]:
    e2 = clone(est)
    with Quiet():
      try:
        e2.fit(*((Xs.astype(dt),) + tuple(f.args[1:])), **f.kwargs)
      except Exception as e:
        j.violated('C06.equivalent-forms.fit',
                   dict(det, form=dt, raised=repr(e)[:200]))
        continue
    if e2.components_.shape != e0.components_.shape:
      j.violated('C06.equivalent-forms.fit', dict(det, form=dt,
                                                  shape=e2.components_.shape))
      continue
    j.close('C06.equivalent-forms.fit', e2.get_mahalanobis_matrix(), Mr,
            1e-7 * max(np.abs(Mr).max(), 1e-300), dict(det, form=dt))


LEVEL_TEXT = ('Exploration by runtime monitoring with a completely enumerated '
              'malformation grammar: every data-taking method of every '
              'estimator is called with every malformed input of the grammar '
              '(with and without a preprocessor) and the exception class that '
              'surfaces at the public boundary is observed; a call that '
              'returns, or raises anything that is not a ValueError, is a '
              'violation. The grammar is finite and enumerated completely per '
              'estimator/method (exhaustive over the grammar, not over all '
              'malformed inputs). Positive half: refits and queries with '
              'list / int / Fortran / strided inputs.')
LEVEL_NOTE = ('The grammar is the harness author\'s reading of "not of the '
              'documented form" (see assumptions in the evidence file); '
              'numpy.linalg.LinAlgError and NotFittedError are ValueError '
              'subclasses and count as ValueError.')
TECHNIQUE = ('runtime monitoring: exception-class oracle at the public API '
             'boundary over an enumerated malformed-input grammar')
