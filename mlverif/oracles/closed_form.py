"""Independent O(n^2) evaluations of the documented closed-form learners."""
import numpy as np
import scipy.linalg

from .psd import explicit_cov  # noqa: F401  (re-export)


# ----------------------------------------------------------------------- RCA
def rca_within_chunk_cov(X, chunks):
  """(1/N) sum_c sum_{i in c} (x_i - mu_c)(x_i - mu_c)^T by explicit loops,
  N = number of points that belong to a chunk."""
  X = np.asarray(X, dtype=float)
  chunks = np.asarray(chunks)
  d = X.shape[1]
  C = np.zeros((d, d))
  N = 0
  for c in np.unique(chunks[chunks >= 0]):
    idx = np.where(chunks == c)[0]
    mu = np.zeros(d)
    for i in idx:
      mu += X[i]
    mu /= len(idx)
    for i in idx:
      v = X[i] - mu
      C += np.outer(v, v)
    N += len(idx)
  return C / N, N


def rca_reference(X, chunks, k):
  """Reference Mahalanobis matrix of RCA, and a gap diagnostic."""
  X = np.asarray(X, dtype=float)
  d = X.shape[1]
  C, N = rca_within_chunk_cov(X, chunks)
  if k is None or k >= d:
    return np.linalg.inv(C), C, np.inf
  mask = np.asarray(chunks) >= 0
  T = explicit_cov(X[mask])
  lam, V = scipy.linalg.eigh(C, T)      # ascending ratios within/total
  gap = (lam[k] - lam[k - 1]) / max(abs(lam[-1]), 1e-300)
  A = V[:, :k]
  inner = A.T.dot(C).dot(A)
  return A.dot(np.linalg.inv(inner)).dot(A.T), C, gap


# ---------------------------------------------------------------------- LFDA
def knn_sigma(Xc, k):
  """Distance from each row to its k-th nearest *other* row (k >= 1)."""
  n = len(Xc)
  out = np.zeros(n)
  for i in range(n):
    dist = np.sqrt(((Xc - Xc[i]) ** 2).sum(axis=1))
    dist = np.sort(np.delete(dist, i))
    out[i] = dist[k - 1]
  return out


def affinity_from_sigma(Xc, sigma):
  n = len(Xc)
  A = np.zeros((n, n))
  for i in range(n):
    for j in range(n):
      s = sigma[i] * sigma[j]
      if s != 0:
        A[i, j] = np.exp(-((Xc[i] - Xc[j]) ** 2).sum() / s)
  return A


def lfda_scatter(X, y, affinities):
  """S_w, S_b from the documented pairwise sums.  `affinities[c]` is the
  (n_c, n_c) affinity matrix of class c in the order X[y == c]."""
  X = np.asarray(X, dtype=float)
  n, d = X.shape
  Sw = np.zeros((d, d))
  Sb = np.zeros((d, d))
  classes = np.unique(y)
  idx_of = {c: np.where(y == c)[0] for c in classes}
  pos = {}
  for c in classes:
    for r, i in enumerate(idx_of[c]):
      pos[i] = (c, r)
  for i in range(n):
    ci, ri = pos[i]
    nc = len(idx_of[ci])
    for j2 in range(i + 1, n):
      cj, rj = pos[j2]
      v = X[i] - X[j2]
      O = np.outer(v, v)
      if ci == cj:
        a = affinities[ci][ri, rj]
        a2 = affinities[ci][rj, ri]
        ww = 0.5 * (a + a2)          # symmetric by construction; be safe
        Sw += ww / nc * O
        Sb += ww * (1.0 / n - 1.0 / nc) * O
      else:
        Sb += O / n
  return Sw, Sb


def lfda_reference(Sw, Sb, k, embedding_type):
  """Reference M (basis- and sign-free) and relative eigen-gap at k."""
  d = Sw.shape[0]
  w, U = np.linalg.eigh((Sw + Sw.T) / 2)
  if w.min() <= 1e-12 * w.max():
    return None, 0.0, None
  isq = (U / np.sqrt(w)).dot(U.T)
  B = isq.dot((Sb + Sb.T) / 2).dot(isq)
  lam, Q = np.linalg.eigh((B + B.T) / 2)
  order = np.argsort(-lam)
  lam, Q = lam[order], Q[:, order]
  V = isq.dot(Q)                       # S_w-orthonormal generalised vectors
  scale = max(abs(lam[0]), 1e-300)
  gap = np.inf if k >= d else (lam[k - 1] - lam[k]) / scale
  Vk, lk = V[:, :k], lam[:k]
  if embedding_type == 'plain':
    M = Vk.dot(Vk.T)
  elif embedding_type == 'weighted':
    M = (Vk * lk).dot(Vk.T)
  else:
    Qo, _ = np.linalg.qr(Vk)
    M = Qo.dot(Qo.T)
  return M, gap, lam
