"""Reference evaluations of the documented objectives of NCA, MLKR, LMNN.

Written from the definitions with explicit per-point loops and explicit
difference vectors (x_i - x_j); they share no code and no algebraic shortcut
(|x|^2+|y|^2-2xy, masks, cumulative sums) with the repository.
"""
import numpy as np


def _sqdist_rows(Z, i):
  """squared distances from row i of Z to every row, by differences."""
  D = Z - Z[i]
  return np.einsum('ij,ij->i', D, D)


def nca_objective(L, X, y):
  """sum_i sum_{j != i, y_j = y_i} softmax_j(-|L x_i - L x_j|^2)."""
  Z = X.dot(L.T)
  n = len(X)
  total = 0.0
  for i in range(n):
    d = _sqdist_rows(Z, i)
    d[i] = np.inf
    m = d.min()
    w = np.exp(-(d - m))
    w[i] = 0.0
    s = w.sum()
    same = (y == y[i])
    same[i] = False
    total += w[same].sum() / s
  return total


def mlkr_objective(L, X, t):
  """sum_i (t_i - sum_{j != i} k_ij t_j / sum_{j != i} k_ij)^2."""
  Z = X.dot(L.T)
  n = len(X)
  total = 0.0
  for i in range(n):
    d = _sqdist_rows(Z, i)
    d[i] = np.inf
    m = d.min()
    w = np.exp(-(d - m))
    w[i] = 0.0
    that = (w * t).sum() / w.sum()
    total += (t[i] - that) ** 2
  return total


def lmnn_targets(X, y, k):
  """k Euclidean same-class nearest neighbours per point (independent) and
  a flag telling whether the k-th / (k+1)-th distances tie somewhere."""
  n = len(X)
  T = np.zeros((n, k), dtype=int)
  tie = False
  for i in range(n):
    same = np.where((y == y[i]) & (np.arange(n) != i))[0]
    d = ((X[same] - X[i]) ** 2).sum(axis=1)
    order = np.argsort(d, kind='stable')
    T[i] = same[order[:k]]
    ds = d[order]
    if len(ds) > k and abs(ds[k] - ds[k - 1]) <= 1e-12 * max(ds[k], 1e-300):
      tie = True
    if k > 1 and np.any(np.diff(ds[:k]) <= 1e-12 * max(ds[k - 1], 1e-300)):
      pass   # order inside the target set does not matter for the objective
  return T, tie


def lmnn_objective(L, X, y, T, reg):
  """reg * sum_i sum_{j in T(i)} d_ij + (1-reg) * sum_i sum_{j in T(i)}
  sum_{l: y_l != y_i} [1 + d_ij - d_il]_+  with d = squared distance under L.
  Returns (objective, smallest |hinge argument|)."""
  Z = X.dot(L.T)
  n, k = T.shape
  pull = 0.0
  push = 0.0
  nearest_kink = np.inf
  for i in range(n):
    d = _sqdist_rows(Z, i)
    other = (y != y[i])
    dil = d[other]
    for j in T[i]:
      pull += d[j]
      h = 1.0 + d[j] - dil
      if h.size:
        nearest_kink = min(nearest_kink, float(np.abs(h).min()))
      push += h[h > 0].sum()
  return reg * pull + (1.0 - reg) * push, nearest_kink


def fd_gradient(f, x, h=None):
  """Central finite differences of scalar f at flat x."""
  x = np.asarray(x, dtype=float)
  g = np.zeros_like(x)
  for i in range(x.size):
    hi = (h if h is not None else 1e-6) * max(1.0, abs(x[i]))
    xp = x.copy()
    xm = x.copy()
    xp[i] += hi
    xm[i] -= hi
    g[i] = (f(xp) - f(xm)) / (xp[i] - xm[i])
  return g
