"""Independent oracles for PSD conversion and the prior / init options (C20).

Used twice: as *in-situ contracts* on the real `_util` functions during every
fit of every check (instrument/contracts.py), and on direct calls with
prescribed spectra (checks/c20.py).
"""
import numpy as np

EPS = np.finfo(float).eps


def explicit_cov(X):
  """Sample covariance (ddof=1) by explicit loops over samples."""
  X = np.asarray(X, dtype=float)
  n, d = X.shape
  mu = np.zeros(d)
  for i in range(n):
    mu += X[i]
  mu /= n
  C = np.zeros((d, d))
  for i in range(n):
    v = X[i] - mu
    C += np.outer(v, v)
  return C / (n - 1)


def penrose_residuals(A, B):
  """Relative residuals of the four Penrose conditions for B = pinv(A)."""
  nA = max(np.abs(A).max(), 1e-300)
  nB = max(np.abs(B).max(), 1e-300)
  AB = A.dot(B)
  BA = B.dot(A)
  return {
      'ABA=A': np.abs(AB.dot(A) - A).max() / nA,
      'BAB=B': np.abs(BA.dot(B) - B).max() / nB,
      'AB sym': np.abs(AB - AB.T).max() / max(np.abs(AB).max(), 1e-300),
      'BA sym': np.abs(BA - BA.T).max() / max(np.abs(BA).max(), 1e-300)}


def rank_in_noise_regime(A):
  """The rank decision of a symmetric matrix is made against a tolerance of
  a few ulps of its largest eigenvalue, i.e. at the noise level of the
  eigen-solver itself.  Used only to *exclude* cases: re-evaluate the
  spectrum with the same numerics the library uses (scipy.linalg.eigh) and
  report whether its smallest magnitude falls in the regime where the
  decision is rounding noise (above half the tolerance, below 1e-6)."""
  import scipy.linalg
  A = np.atleast_2d(np.asarray(A, dtype=float))
  try:
    # (with eigenvectors: LAPACK uses another driver for values only, whose
    # rounding noise on a zero eigenvalue differs by orders of magnitude)
    w = scipy.linalg.eigh(A, check_finite=False)[0]
    w = np.r_[w, scipy.linalg.eigh(A, eigvals_only=True, check_finite=False)]
  except Exception:
    return True
  m = np.abs(w).max()
  if m == 0:
    return False
  tol_rel = A.shape[0] * EPS
  r = np.abs(w) / m
  return bool(np.any((0.5 * tol_rel < r) & (r < 1e-6)))


def ambiguous_rank(w, lo=1e-13, hi=1e-6):
  """True when some eigenvalue is neither clearly zero nor clearly nonzero."""
  w = np.abs(np.asarray(w, dtype=float))
  m = w.max() if w.size else 0.0
  if m == 0:
    return False
  r = w / m
  return bool(np.any((r > lo) & (r < hi)))


def judge_components_from_metric(j, M, tol, result, exc, mon='C20.cfm'):
  """Postcondition of components_from_metric(M, tol) -> result | exc."""
  from metric_learn.exceptions import NonPSDError
  M = np.asarray(M)
  if M.ndim != 2 or M.shape[0] != M.shape[1] or M.dtype.kind not in 'fiu' \
          or not np.all(np.isfinite(M)):
    j.count(mon + '.out-of-domain')
    return
  M = M.astype(float)
  d = M.shape[0]
  nM = max(np.abs(M).max(), 1e-300)
  asym = np.abs(M - M.T).max()
  Ms = (M + M.T) / 2
  w = np.linalg.eigvalsh(Ms)
  if np.array_equal(M, np.diag(np.diag(M))):
    w = np.sort(np.diag(M))
  tol_eff = tol if tol is not None else np.abs(w).max() * d * EPS
  band = 0.1 * tol_eff + 64 * d * EPS * nM
  if np.array_equal(M, np.diag(np.diag(M))):
    band = 0.0      # the spectrum of a diagonal matrix is exact
  lam = w.min()
  # --- symmetry clause
  # (np.allclose: |a-b| <= 1e-8 + 1e-5|b|; matrices that are symmetric up to
  # rounding -- also rounding of larger intermediates -- are "symmetric")
  if asym > 1e-3 * nM and asym > 1e-6:
    j.check(mon + '.asym-rejected',
            isinstance(exc, ValueError) and not isinstance(exc, NonPSDError),
            {'asym': asym, 'got': type(exc).__name__ if exc else 'returned'})
    return
  if asym > 1e-6 * nM:
    j.skip(mon, 'asymmetry-near-allclose-boundary')
    return
  # --- PSD clause
  if lam < -tol_eff - band:
    j.check(mon + '.nonpsd-rejected', isinstance(exc, NonPSDError),
            {'lambda_min': lam, 'tol_eff': tol_eff,
             'got': type(exc).__name__ if exc else 'returned'})
    return
  if band > 0 and abs(lam + tol_eff) < band:
    # (also lam slightly above -tol: with tol = 0 the computed sign of a
    # zero eigenvalue is rounding noise)
    j.skip(mon, 'eigenvalue-near-minus-tol')
    return
  # here the matrix is PSD up to tolerance: must be accepted and L^T L = M
  if exc is not None:
    j.violated(mon + '.psd-accepted',
               {'lambda_min': lam, 'tol_eff': tol_eff, 'raised':
                type(exc).__name__, 'msg': str(exc)[:200]})
    return
  L = np.asarray(result)
  if L.ndim != 2 or L.shape[1] != d or L.dtype.kind != 'f' or \
          not np.all(np.isfinite(L)):
    j.violated(mon + '.reconstruct', {'why': 'bad L', 'shape': L.shape,
                                      'dtype': str(L.dtype)})
    return
  err = np.abs(L.T.dot(L) - Ms).max()
  allowed = 2 * max(0.0, -lam) + asym + 64 * d * EPS * nM
  j.close(mon + '.reconstruct', err, 0.0, allowed,
          {'lambda_min': lam, 'd': d, 'normM': nM})


def judge_metric_init(j, points, init, random_state, return_inverse,
                      strict_pd, result, exc, mon='C20.minit'):
  """Postcondition of _initialize_metric_mahalanobis."""
  from sklearn.datasets import make_spd_matrix
  from metric_learn.exceptions import NonPSDError
  inp = np.asarray(points)
  if inp.dtype.kind not in 'fiu' or not np.all(np.isfinite(inp)):
    j.count(mon + '.out-of-domain')
    return
  d = inp.shape[-1]
  X = inp.reshape(-1, d).astype(float)
  if inp.ndim == 3:
    X = np.unique(X, axis=0)

  def unpack():
    if return_inverse:
      return np.asarray(result[0]), np.asarray(result[1])
    return np.asarray(result), None

  if isinstance(init, np.ndarray):
    A = init
    if A.ndim != 2 or A.shape != (d, d):
      j.check(mon + '.array-shape', isinstance(exc, ValueError),
              {'shape': A.shape, 'd': d})
      return
    nA = max(np.abs(A).max(), 1e-300)
    asym = np.abs(A - A.T).max()
    if asym > 1e-3 * nA and asym > 1e-6:
      j.check(mon + '.array-asym', isinstance(exc, ValueError) and
              not isinstance(exc, NonPSDError), {'asym': asym})
      return
    if asym > 1e-6 * nA:
      j.skip(mon, 'asymmetry-near-allclose-boundary')
      return
    w = np.linalg.eigvalsh((A + A.T) / 2.0)
    tol = np.abs(w).max() * d * EPS
    if w.min() < -100 * tol:
      j.check(mon + '.array-indefinite', isinstance(exc, NonPSDError),
              {'lambda_min': w.min(), 'got': type(exc).__name__ if exc
               else 'returned'})
      return
    if w.min() < -0.01 * tol or ambiguous_rank(w) or \
            rank_in_noise_regime(A):
      j.skip(mon, 'spectrum-near-tolerance')
      return
    singular = np.abs(w).min() <= tol
    if strict_pd and singular:
      j.check(mon + '.strict-pd', isinstance(exc, np.linalg.LinAlgError),
              {'min_abs_eig': np.abs(w).min(), 'got':
               type(exc).__name__ if exc else 'returned'})
      return
    if exc is not None:
      j.violated(mon + '.array-accepted', {'raised': type(exc).__name__,
                                           'msg': str(exc)[:200]})
      return
    M, Minv = unpack()
    ok = np.array_equal(M, A.astype(float))
    j.check(mon + '.array-as-given', ok, {'maxdiff': np.abs(M - A).max()
                                          if M.shape == A.shape else None})
    j.check(mon + '.array-not-aliased', not np.shares_memory(M, A), {})
    if Minv is not None:
      res = penrose_residuals(A.astype(float), Minv)
      nz = np.abs(w[np.abs(w) > tol])
      cond = w.max() / nz.min() if nz.size else 1.0
      j.close(mon + '.inverse', max(res.values()), 0.0,
              1e-8 * max(1.0, cond), res)
    return

  if init == 'identity':
    if exc is not None:
      j.violated(mon + '.identity', {'raised': type(exc).__name__})
      return
    M, Minv = unpack()
    j.check(mon + '.identity', np.array_equal(M, np.eye(d)) and
            (Minv is None or np.array_equal(Minv, np.eye(d))), {'M': M})
    if Minv is not None:
      j.check(mon + '.array-not-aliased', not np.shares_memory(M, Minv), {})
    return

  if init == 'covariance':
    if X.shape[0] < 2:
      j.count(mon + '.out-of-domain')
      return
    C = np.atleast_2d(explicit_cov(X))
    w = np.linalg.eigvalsh(C)
    if ambiguous_rank(w) or rank_in_noise_regime(
            np.atleast_2d(np.cov(X, rowvar=False))):
      j.skip(mon, 'covariance-ambiguous-rank')
      return
    tol = np.abs(w).max() * d * EPS
    singular = np.abs(w).min() <= tol
    if strict_pd and singular:
      j.check(mon + '.strict-pd', isinstance(exc, np.linalg.LinAlgError),
              {'min_eig': w.min(), 'got': type(exc).__name__ if exc
               else 'returned'})
      return
    if exc is not None:
      j.violated(mon + '.covariance', {'raised': type(exc).__name__,
                                       'msg': str(exc)[:200]})
      return
    M, Minv = unpack()
    res = penrose_residuals(C, M)
    cond = w.max() / max(w[w > tol].min(), 1e-300) if np.any(w > tol) else 1.
    j.close(mon + '.covariance', max(res.values()), 0.0,
            1e-9 * max(1.0, cond), dict(res, cond=cond))
    if Minv is not None:
      j.close(mon + '.inverse', np.abs(Minv - C).max(), 0.0,
              1e-10 * max(np.abs(C).max(), 1e-300), {})
    return

  if init == 'random':
    if exc is not None:
      j.violated(mon + '.random', {'raised': type(exc).__name__})
      return
    M, Minv = unpack()
    w = np.linalg.eigvalsh((M + M.T) / 2)
    asym = np.abs(M - M.T).max()
    j.check(mon + '.random-spd', asym <= 1e-9 * np.abs(M).max() and
            w.min() > 0, {'lambda_min': w.min(), 'asym': asym})
    if isinstance(random_state, (int, np.integer)):
      ref = make_spd_matrix(d, random_state=np.random.RandomState(
          int(random_state)))
      j.check(mon + '.random-reproducible', np.array_equal(M, ref),
              {'maxdiff': np.abs(M - ref).max()})
    if Minv is not None:
      res = penrose_residuals(M, Minv)
      j.close(mon + '.inverse', max(res.values()), 0.0,
              1e-9 * max(1.0, w.max() / w.min()), res)
    return

  # anything else is not a documented option: must be rejected
  j.check(mon + '.bad-option', isinstance(exc, ValueError),
          {'init': repr(init)[:50]})


def _rowspace_equal(A, B, tol=1e-6):
  """Row spaces of A and B (same shape) coincide?  returns residual."""
  if A.shape != B.shape:
    return np.inf
  Qa, _ = np.linalg.qr(A.T)
  Qb, _ = np.linalg.qr(B.T)
  return float(np.abs(Qa.dot(Qa.T) - Qb.dot(Qb.T)).max())


def expected_auto(has_classes, d, n, k, n_classes):
  """The documented selection rule, as a set of acceptable options.  At the
  single point k == n_classes (<= d) the docstring ("n_components <=
  n_classes") and the implementable rule (LDA yields at most n_classes-1
  directions) disagree: both outcomes are accepted there."""
  if has_classes and k <= min(d, n_classes - 1):
    return {'lda'}
  acc = set()
  if has_classes and k == n_classes and k <= d:
    acc.add('lda')
  if k < min(d, n):
    acc.add('pca')
  else:
    acc.add('identity')
  return acc


def judge_components_init(j, n_components, inp, y, init, random_state,
                          has_classes, result, exc, mon='C20.cinit'):
  """Postcondition of _initialize_components."""
  from sklearn.decomposition import PCA
  from sklearn.discriminant_analysis import LinearDiscriminantAnalysis
  inp = np.asarray(inp)
  if inp.dtype.kind not in 'fiu' or not np.all(np.isfinite(inp)):
    j.count(mon + '.out-of-domain')
    return
  d = inp.shape[-1]
  X = inp.reshape(-1, d).astype(float) if inp.ndim != 2 else inp.astype(float)
  n = X.shape[0]
  k = n_components
  if isinstance(init, np.ndarray):
    bad = (init.ndim != 2 or init.shape[1] != d or init.shape[0] > d or
           init.shape[0] != k)
    if bad:
      j.check(mon + '.array-shape', isinstance(exc, ValueError),
              {'shape': init.shape, 'k': k, 'd': d,
               'got': type(exc).__name__ if exc else 'returned'})
      return
    if exc is not None:
      j.violated(mon + '.array-accepted', {'raised': type(exc).__name__})
      return
    R = np.asarray(result)
    j.check(mon + '.array-as-given', np.array_equal(R, init.astype(float)),
            {})
    j.check(mon + '.array-not-aliased', not np.shares_memory(R, init), {})
    return
  options = ['auto', 'pca', 'identity', 'random'] + (['lda'] if has_classes
                                                     else [])
  if not isinstance(init, str) or init not in options:
    j.check(mon + '.bad-option', isinstance(exc, ValueError),
            {'init': repr(init)[:50]})
    return
  if exc is not None:
    if init in ('auto', 'identity', 'random'):
      # these options are always applicable: the selection rule must not
      # pick something that cannot be computed
      j.violated(mon + '.option-' + init,
                 {'k': k, 'd': d, 'raised': type(exc).__name__,
                  'msg': str(exc)[:200]})
      return
    # lda / pca with too many components is the caller's problem
    j.count(mon + '.raised.' + type(exc).__name__)
    return
  R = np.asarray(result)
  if R.shape != (k, d):
    j.violated(mon + '.shape', {'shape': R.shape, 'k': k, 'd': d,
                                'init': init})
    return
  chosen = {init}
  if init == 'auto':
    n_classes = len(np.unique(y)) if has_classes else -1
    chosen = expected_auto(has_classes, d, n, k, n_classes)
  ok = False
  detail = {'init': init, 'acceptable': sorted(chosen), 'k': k, 'd': d}
  for opt in sorted(chosen):
    if opt == 'identity':
      ok = ok or np.array_equal(R, np.eye(k, d))
    elif opt == 'random':
      if isinstance(random_state, (int, np.integer)):
        ref = np.random.RandomState(int(random_state)).randn(k, d)
        ok = ok or np.array_equal(R, ref)
      else:
        ok = True
    elif opt == 'pca':
      if max(n, d) > 500 and not (d <= 1000 and n >= 10 * d) and \
              k < 0.8 * min(n, d):
        # scikit-learn's PCA picks its randomized solver here: the documented
        # "PCA components" are then an approximation (seed-dependent), not
        # the exact principal axes this contract recomputes
        j.skip(mon, 'pca-randomized-solver-regime')
        return
      if k <= min(n, d):
        ref = PCA(n_components=k, svd_solver='full').fit(X).components_
        s = np.linalg.svd(X - X.mean(0), compute_uv=False)
        gap_ok = k >= len(s) or (s[k - 1] - s[k]) > 1e-6 * s[0]
        if not gap_ok:
          j.skip(mon, 'pca-eigengap')
          return
        res = _rowspace_equal(R, ref)
        detail['pca_rowspace_residual'] = res
        ok = ok or res < 1e-6
    elif opt == 'lda':
      try:
        lda = LinearDiscriminantAnalysis(n_components=k).fit(X, y)
        ref = lda.scalings_.T[:k]
        if ref.shape[0] < k:
          # documented: "the rest of the components will be zero"
          ref = np.vstack([ref, np.zeros((k - ref.shape[0], d))])
          detail['lda_rank'] = int(lda.scalings_.shape[1])
        if ref.shape == R.shape:
          res = float(np.abs(R - ref).max() / max(np.abs(ref).max(), 1e-300))
          detail['lda_residual'] = res
          ok = ok or res < 1e-8
      except Exception as e:   # reference itself not computable
        detail['lda_ref_error'] = repr(e)[:100]
  j.check(mon + '.option-' + (init if init != 'auto' else 'auto'), ok, detail)


def judge_check_sdp(j, w, tol, result, exc, mon='C20.sdp'):
  """Documented rule of _check_sdp_from_eigen on an exact spectrum."""
  from metric_learn.exceptions import NonPSDError
  w = np.asarray(w, dtype=float)
  t = tol if tol is not None else np.abs(w).max() * len(w) * EPS
  det = {'w': w, 'tol': tol, 'tol_eff': t,
         'got': type(exc).__name__ if exc else result}
  if np.any(w < -t):
    j.check(mon + '.rejects', isinstance(exc, NonPSDError), det)
  elif exc is not None:
    j.violated(mon + '.accepts', det)
  else:
    # definite = every eigenvalue is positive beyond the tolerance (a zero
    # eigenvalue is never "positive", also when the tolerance is 0)
    j.check(mon + '.definite-flag', bool(result) == bool(not np.any(
        np.abs(w) <= t)), det)


def judge_pinv_from_eig(j, w, V, tol, result, exc, mon='C20.pinv'):
  """V diag(1/w_i if |w_i| > tol else 0) V^T, tol defaulting to
  max(w) * n * eps."""
  w = np.asarray(w, dtype=float)
  t = tol if tol is not None else np.amax(w) * len(w) * EPS
  if exc is not None:
    j.violated(mon, {'raised': type(exc).__name__, 'w': w, 'tol': tol})
    return
  n = len(w)
  ref = np.zeros((n, n))
  for i in range(n):
    if abs(w[i]) > t:
      ref += np.outer(V[:, i], V[:, i]) / w[i]
  sc = max(np.abs(ref).max(), 1e-300)
  j.close(mon, np.asarray(result), ref, 1e-12 * sc * n, {'w': w, 'tol': tol})
