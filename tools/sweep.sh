#!/bin/bash
# seed sweep: tools/sweep.sh quick|thorough <first-seed> <last-seed> [check ...]
# evidence and replays of the sweep go to a scratch directory (the committed
# evidence is that of seed 0, written by tools/run_all.sh); prints one line per
# (check, seed) that is not "held" and a summary.
tier=$1; a=$2; b=$3; shift 3
checks=${*:-$(seq -f "C%02g" 1 20)}
cd "$(dirname "$0")/.."
scratch=$(mktemp -d /tmp/mlverif-sweep-XXXXXX)
export VERIF_EVIDENCE_DIR=$scratch/ev VERIF_REPLAY_DIR=$scratch/rp
bad=0; n=0
for s in $(seq $a $b); do
  for c in $checks; do
    out=$(VERIF_SEED=$s /venv/bin/python -m mlverif $c --tier $tier 2>&1); rc=$?
    n=$((n+1))
    if [ $rc -ne 0 ]; then
      bad=$((bad+1))
      echo "== $c seed=$s exit=$rc"
      echo "$out" | grep -E "^\[C|^VIOLATION|^INCONCLUSIVE|detail:" | cut -c1-600 | head -8
    fi
  done
  echo "seed $s done ($bad not held so far of $n)"
done
rm -rf "$scratch"
echo "SWEEP tier=$tier seeds=$a..$b runs=$n not-held=$bad"
[ $bad -eq 0 ]
