#!/bin/bash
# run every check of MANIFEST.json at a tier: tools/run_all.sh quick|thorough [seed]
tier=${1:-quick}; seed=${2:-0}
cd "$(dirname "$0")/.."
rc=0
for i in $(seq -w 1 20); do
  out=$(VERIF_SEED=$seed /venv/bin/python -m mlverif C$i --tier $tier 2>&1); c=$?
  echo "$out" | grep -E "^\[C|^VIOLATION|^INCONCLUSIVE|^KNOWN" | cut -c1-220
  if [ $c -ne 0 ]; then rc=1; echo "  -> exit $c"; fi
done
exit $rc
