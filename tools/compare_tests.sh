#!/bin/bash
wt=$1
cd "$wt" && OMP_NUM_THREADS=1 OPENBLAS_NUM_THREADS=1 PYTHONPATH="$wt" /venv/bin/python -m pytest -q -p no:cacheprovider -n 4 --timeout=900 --junitxml="$wt/.junit.xml" test > "$wt/.pytest.log" 2>&1
tail -1 "$wt/.pytest.log"
/venv/bin/python - "$wt/.junit.xml" <<'PY'
import json, sys, xml.etree.ElementTree as ET
want=set(json.load(open('/root/.vp/BASELINE.json'))['stable_pass'])
ok=set()
for tc in ET.parse(sys.argv[1]).iter('testcase'):
    if not any(c.tag in('failure','error','skipped') for c in tc):
        ok.add(tc.get('classname')+'::'+tc.get('name'))
miss=sorted(want-ok)
print('baseline tests (875) not passing here:', len(miss)); print('\n'.join(miss[:20]))
print('total passing here:', len(ok))
PY
