#!/usr/bin/env python3
"""Regenerate MANIFEST.json from the checks that exist under mlverif/checks.

Every check module carries its own MANIFEST texts (LEVEL_TEXT, LEVEL_NOTE,
TECHNIQUE); properties without a module are listed under not_applicable with
the reason given in PENDING below.
"""
import importlib
import json
import os
import sys

HERE = os.path.dirname(os.path.dirname(os.path.abspath(__file__)))
sys.path.insert(0, HERE)
os.environ.setdefault('VERIF_REPO', '/repo')

PY = '/venv/bin/python'
BASELINE = ("cd /repo && /venv/bin/python -m pytest -ra -q -p no:cacheprovider "
            "--timeout=900 --continue-on-collection-errors")


def main():
  from mlverif import PROPERTY_IDS, repo
  repo.setup()
  checks, na = [], []
  for pid in PROPERTY_IDS:
    path = os.path.join(HERE, 'mlverif', 'checks', pid.lower() + '.py')
    if not os.path.exists(path):
      na.append({'property_id': pid,
                 'reason': 'check not built yet in this tree (runtime '
                           'monitoring applies; see DESIGN.md section 3 %s)'
                           % pid})
      continue
    m = importlib.import_module('mlverif.checks.' + pid.lower())
    checks.append({
        'property_id': pid,
        'quick_cmd': '%s -m mlverif %s --tier quick' % (PY, pid),
        'thorough_cmd': '%s -m mlverif %s --tier thorough' % (PY, pid),
        'evidence_file': '/verif/evidence/%s.json' % pid,
        'replay_cmd_template': '%s -m mlverif %s --replay {path}' % (PY, pid),
        'engine': 'mlverif',
        'level_claimed': {
            'category': getattr(m, 'LEVEL', 'exploration'),
            'text': m.LEVEL_TEXT,
            'design_ref': 'DESIGN.md section 3, ' + pid},
        'level_note': m.LEVEL_NOTE,
        'technique': m.TECHNIQUE})
  man = {
      'version': 1,
      'setup_cmd': 'mkdir -p evidence replays .work && %s -m compileall -q '
                   'mlverif' % PY,
      'hooks': {
          'guard': 'METRIC_LEARN_VERIF',
          'enable': 'The driver exports METRIC_LEARN_VERIF=1 to its worker '
                    'processes; monitors are installed in-process by '
                    'mlverif.instrument (method wrappers, rebinding of '
                    'module-level names, sys.monitoring local events) and '
                    'refuse to install without the guard. No hook lives in '
                    'the repository source, which is imported from '
                    '$VERIF_REPO (default /repo) working tree as it is.',
          'baseline_off_cmd': BASELINE,
          'source_commits': [],
          'add_only': True},
      'engines': [{
          'name': 'mlverif', 'path': '/verif/mlverif',
          'serves_properties': [c['property_id'] for c in checks],
          'kind_free_text': 'runtime monitoring: online invariants on the '
                            'real public methods and internal functions, '
                            'reference-model oracles, trace checkers over '
                            'recorded solver events; seeded hostile '
                            'workloads sharded over 16 worker processes'}],
      'checks': checks,
      'not_applicable': na,
      'notes': 'Exit 0 = held on everything observed (KNOWN-FINDING lines '
               'allowed); exit 1 + VIOLATION lines = unlisted violation; '
               'exit 2 = inconclusive (a deciding monitor did not reach its '
               'minimum number of evaluations or a worker died) -- never a '
               'VIOLATION. Repository defects repaired by fix: commits and '
               'the one open finding are listed in known_findings.json.'}
  with open(os.path.join(HERE, 'MANIFEST.json'), 'w') as f:
    json.dump(man, f, indent=1)
    f.write('\n')
  print('checks:', [c['property_id'] for c in checks])
  print('not_applicable:', [c['property_id'] for c in na])


if __name__ == '__main__':
  main()
