#!/usr/bin/env python3
"""Confirm and evaluate an independently seeded change.

  tools/seeded.py import <name> <property> <agent-worktree>   copy patch.diff / demo.py / NOTES.md
  tools/seeded.py confirm <name>      scratch worktree: demo passes without, fails with the
                                      patch; 875 baseline tests still pass with it
  tools/seeded.py run <name> [tier]   git apply to /repo, run the property's check(s), revert
  tools/seeded.py run-at <name> <rev> [tier]   same against a scratch worktree of /repo at <rev>
"""
import json
import os
import shutil
import subprocess
import sys
import tempfile

HERE = os.path.dirname(os.path.dirname(os.path.abspath(__file__)))
REPO = '/repo'
PY = '/venv/bin/python'


def sh(cmd, **kw):
  return subprocess.run(cmd, shell=isinstance(cmd, str), capture_output=True,
                        text=True, **kw)


def meta_path(name):
  return os.path.join(HERE, 'seeded', name, 'meta.json')


def load(name):
  with open(meta_path(name)) as f:
    return json.load(f)


def save(name, m):
  with open(meta_path(name), 'w') as f:
    json.dump(m, f, indent=1)
    f.write('\n')


def cmd_import(name, prop, wt):
  d = os.path.join(HERE, 'seeded', name)
  os.makedirs(d, exist_ok=True)
  for fn in ('patch.diff', 'demo.py', 'NOTES.md'):
    shutil.copy(os.path.join(wt, fn), os.path.join(d, fn))
  notes = open(os.path.join(d, 'NOTES.md')).read()
  save(name, {'name': name, 'property': prop.split(','),
              'source': 'sub-agent given only the property text and a '
                        'scratch worktree',
              'needs_to_manifest': notes[:1500], 'confirmed': None,
              'runs': []})
  print('imported', d)


def cmd_confirm(name):
  m = load(name)
  d = os.path.join(HERE, 'seeded', name)
  tmp = tempfile.mkdtemp(prefix='seeded-', dir='/tmp')
  wt = os.path.join(tmp, 'wt')
  try:
    # (a change written for a tree that a later fix: commit altered is
    # confirmed against that tree: meta.json 'applies_to')
    rev = m.get('applies_to', 'HEAD')
    r = sh(['git', '-C', REPO, 'worktree', 'add', '-q', '--detach', wt, rev])
    assert r.returncode == 0, r.stderr
    env = dict(os.environ, PYTHONPATH=wt, OMP_NUM_THREADS='1',
               OPENBLAS_NUM_THREADS='1')
    shutil.copy(os.path.join(d, 'demo.py'), os.path.join(wt, 'demo.py'))
    # demo.py files refer to their own worktree path: make them relocatable
    src = open(os.path.join(wt, 'demo.py')).read()
    import re
    src = re.sub(r'/tmp/s[a-z]/C\d\d', wt, src)
    open(os.path.join(wt, 'demo.py'), 'w').write(src)
    r0 = sh([PY, 'demo.py'], cwd=wt, env=env, timeout=1800)
    a = sh(['git', '-C', wt, 'apply', os.path.join(d, 'patch.diff')])
    assert a.returncode == 0, a.stderr
    r1 = sh([PY, 'demo.py'], cwd=wt, env=env, timeout=1800)
    t = sh('cd %s && OMP_NUM_THREADS=1 OPENBLAS_NUM_THREADS=1 PYTHONPATH=%s %s -m pytest -q -p no:cacheprovider -n 12 '
           '--timeout=900 --junitxml=%s/j.xml test > %s/log 2>&1; tail -1 %s/log'
           % (wt, wt, PY, tmp, tmp, tmp), timeout=7200)
    import xml.etree.ElementTree as ET
    want = set(json.load(open('/root/.vp/BASELINE.json'))['stable_pass'])
    ok = set()
    for tc in ET.parse(os.path.join(tmp, 'j.xml')).iter('testcase'):
      if not any(c.tag in ('failure', 'error', 'skipped') for c in tc):
        ok.add(tc.get('classname') + '::' + tc.get('name'))
    miss = sorted(want - ok)
    # tests lost to the watchdog on a loaded machine: retry them alone
    still = []
    for t_id in miss:
      cls_, name_ = t_id.split('::', 1)
      mod, klass = cls_.rsplit('.', 1) if cls_.count('.') > 1 else (cls_, None)
      node = mod.replace('.', '/') + '.py::' + \
          ((klass + '::') if klass else '') + name_
      r_ = sh('cd %s && OMP_NUM_THREADS=1 PYTHONPATH=%s %s -m pytest -q -p no:cacheprovider '
              '--timeout=1800 "%s" 2>&1 | tail -1' % (wt, wt, PY, node),
              timeout=3600)
      if ' passed' not in r_.stdout or 'failed' in r_.stdout:
        still.append(t_id)
    retried = len(miss) - len(still)
    miss = still
    m['confirmed'] = {
        'baseline_tests_passing_only_on_retry_alone': retried,
        'repo_head': sh(['git', '-C', wt, 'rev-parse', '--short',
                         'HEAD']).stdout.strip(),
        'demo_without_patch': {'exit': r0.returncode,
                               'tail': r0.stdout.strip()[-300:]},
        'demo_with_patch': {'exit': r1.returncode,
                            'tail': r1.stdout.strip()[-300:]},
        'baseline_875_missing_with_patch': len(miss),
        'baseline_missing_examples': miss[:5],
        'pytest_summary': t.stdout.strip()[-200:],
        'ok': r0.returncode == 0 and r1.returncode != 0 and not miss}
    save(name, m)
    print(json.dumps(m['confirmed'], indent=1))
  finally:
    sh(['git', '-C', REPO, 'worktree', 'remove', '--force', wt])
    shutil.rmtree(tmp, ignore_errors=True)


def cmd_run(name, tier='quick'):
  m = load(name)
  d = os.path.join(HERE, 'seeded', name)
  st = sh(['git', '-C', REPO, 'status', '--porcelain', '--untracked-files=no'])
  assert not st.stdout.strip(), 'repo working tree not clean'
  a = sh(['git', '-C', REPO, 'apply', os.path.join(d, 'patch.diff')])
  assert a.returncode == 0, a.stderr
  out = {}
  try:
    tmp = tempfile.mkdtemp(prefix='seeded-ev-', dir='/tmp')
    env = dict(os.environ, VERIF_EVIDENCE_DIR=os.path.join(tmp, 'ev'),
               VERIF_REPLAY_DIR=os.path.join(tmp, 'rp'))
    for pid in m['property']:
      r = sh([PY, '-m', 'mlverif', pid, '--tier', tier], cwd=HERE, env=env,
             timeout=4 * 3600)
      viol = [ln for ln in r.stdout.splitlines() if ln.startswith('VIOLATION')]
      mons = sorted(set(x for ln in viol
                        for x in ln.split('monitors=')[-1].split(',')))
      out[pid] = {'tier': tier, 'exit': r.returncode,
                  'violating_cases': len(viol), 'monitors': mons[:10]}
      print(pid, out[pid])
    shutil.rmtree(tmp, ignore_errors=True)
  finally:
    sh(['git', '-C', REPO, 'checkout', '--', '.'])
  m['runs'].append({'verif_commit': sh(['git', '-C', HERE, 'rev-parse',
                                        '--short', 'HEAD']).stdout.strip(),
                    'results': out,
                    'caught': any(v['exit'] == 1 and v['violating_cases']
                                  for v in out.values())})
  save(name, m)


def cmd_run_at(name, rev, tier='quick'):
  """Like run, but against a scratch worktree of /repo at <rev> (for changes
  written for a tree that a later fix: commit has since altered)."""
  m = load(name)
  d = os.path.join(HERE, 'seeded', name)
  tmp = tempfile.mkdtemp(prefix='seeded-at-', dir='/tmp')
  wt = os.path.join(tmp, 'wt')
  out = {}
  try:
    r = sh(['git', '-C', REPO, 'worktree', 'add', '-q', '--detach', wt, rev])
    assert r.returncode == 0, r.stderr
    base = {}
    for label in ('without', 'with'):
      if label == 'with':
        a = sh(['git', '-C', wt, 'apply', os.path.join(d, 'patch.diff')])
        assert a.returncode == 0, a.stderr
      env = dict(os.environ, VERIF_REPO=wt,
                 VERIF_EVIDENCE_DIR=os.path.join(tmp, 'ev'),
                 VERIF_REPLAY_DIR=os.path.join(tmp, 'rp'))
      for pid in m['property']:
        r = sh([PY, '-m', 'mlverif', pid, '--tier', tier], cwd=HERE, env=env,
               timeout=4 * 3600)
        viol = [ln for ln in r.stdout.splitlines()
                if ln.startswith('VIOLATION')]
        mons = sorted(set(x for ln in viol
                          for x in ln.split('monitors=')[-1].split(',')))
        res = {'tier': tier, 'exit': r.returncode,
               'violating_cases': len(viol), 'monitors': mons[:10]}
        if label == 'without':
          base[pid] = res
        else:
          # monitors that fire only with the patch
          res['monitors_only_with_patch'] = sorted(
              set(mons) - set(base[pid]['monitors']))[:10]
          res['without_patch_at_rev'] = base[pid]
          out[pid] = res
        print(label, pid, res)
  finally:
    sh(['git', '-C', REPO, 'worktree', 'remove', '--force', wt])
    shutil.rmtree(tmp, ignore_errors=True)
  m['runs'].append({'verif_commit': sh(['git', '-C', HERE, 'rev-parse',
                                        '--short', 'HEAD']).stdout.strip(),
                    'repo_rev': rev, 'results': out,
                    # (on an old tree the unpatched run may itself violate
                    # - defects repaired since; then more violating cases
                    # with the patch than without count as well)
                    'caught': any(v['exit'] == 1 and
                                  (v['monitors_only_with_patch'] or
                                   v['violating_cases'] >
                                   v['without_patch_at_rev']['violating_cases'])
                                  for v in out.values())})
  save(name, m)


def cmd_table():
  rows = []
  base = os.path.join(HERE, 'seeded')
  for name in sorted(os.listdir(base)):
    mp = os.path.join(base, name, 'meta.json')
    if not os.path.exists(mp):
      continue
    m = load(name)
    conf = m.get('confirmed') or {}
    first = m['runs'][0] if m['runs'] else None
    last = m['runs'][-1] if m['runs'] else None

    def fmt(run):
      if not run:
        return '-'
      return '; '.join('%s %s: %s' % (p, v['tier'],
                                       ('caught by ' + ', '.join(v['monitors'][:3]))
                                       if v['exit'] == 1 else 'exit %s' % v['exit'])
                       for p, v in run['results'].items())
    rows.append('| `%s` | %s | %s | %s | %s | %s |' % (
        name, ','.join(m['property']),
        'yes' if conf.get('ok') else ('pending' if not conf else 'NO'),
        fmt(first), fmt(last) if last is not first else 'same',
        m.get('note', '')))
  out = ['# Independently seeded changes', '',
         'Each directory holds `patch.diff` (apply with `git -C /repo apply`), '
         '`demo.py` (fails with the patch, passes without), the author\'s '
         '`NOTES.md` and `meta.json` (what it needs to manifest, my '
         'confirmation run, and every evaluation of the checks against it). '
         'Authors were sub-agents that saw only the property text and a '
         'scratch worktree.', '',
         '| change | property | confirmed (demo both ways, 875 baseline tests '
         'pass) | first evaluation | latest evaluation | strengthening |',
         '|---|---|---|---|---|---|'] + rows
  with open(os.path.join(base, 'README.md'), 'w') as f:
    f.write('\n'.join(out) + '\n')
  print('\n'.join(out))


if __name__ == '__main__':
  c = sys.argv[1]
  {'import': cmd_import, 'confirm': cmd_confirm, 'run': cmd_run,
   'run-at': cmd_run_at, 'table': cmd_table}[c](
      *sys.argv[2:])
